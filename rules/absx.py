"""Path-sensitive abstract interpretation of the typed HIR over a term-valued domain (engine F9 /
the path part of F3, F4, F5).

Nothing is executed and no constraint solver is involved: the interpreter walks the structured
HIR of one body, forks at every condition it cannot decide syntactically, and carries *terms*
(the data origin of each value) instead of values.  A rule then inspects, for every enumerated
path, the path condition (a tuple of atoms), the ordered list of call events and the term of the
result.  Loops are entered at most `unroll` times; what lies beyond is reported as the exit kind
'loop' so a rule can see that it did not look further.

Terms:  ('lit', v) ('param', name) ('const', def) ('fn', def) ('ctor', Variant, args) ('tuple', elems)
        ('struct', def, ((field, term)...), base|None) ('field', base, name) ('call', callee, args, site)
        ('cast', term, ty) ('bin', op, a, b) ('not', t) ('neg', t) ('closure', def) ('unwrap', t)
        ('tryok', t) ('await', t) ('elem', t) ('unk', why) ('fresh', tag, n)
"""
from facts import callee_of, call_args, loc
import re
import hirq, cloneid
import facts as facts_mod

MAX_PATHS = 4000

class TooManyPaths(Exception):
    pass

class St:
    __slots__ = ('env', 'heap', 'ev', 'pc', 'ctr')
    def __init__(self, env=None, heap=None, ev=(), pc=(), ctr=0):
        self.env = env or {}
        self.heap = heap or {}
        self.ev = ev
        self.pc = pc
        self.ctr = ctr
    def set(self, b, v):
        e = dict(self.env); e[b] = v
        return St(e, self.heap, self.ev, self.pc, self.ctr)
    def store(self, place, v):
        h = dict(self.heap); h[place] = v
        # writing a whole place invalidates sub-places
        for k in list(h):
            if k != place and is_subplace(k, place):
                del h[k]
        return St(self.env, h, self.ev, self.pc, self.ctr)
    def event(self, e):
        return St(self.env, self.heap, self.ev + (e,), self.pc, self.ctr)
    def assume(self, atom, truth):
        atom, truth = bool_test(atom, truth)
        if atom[0] == 'lit':
            return self
        # two-variant enums are recorded through their positive variant, so `is None` and `not is Some` are the same fact
        if atom[0] == 'is' and atom[2] in COMPLEMENT:
            atom, truth = ('is', atom[1], COMPLEMENT[atom[2]]), not truth
        return St(self.env, self.heap, self.ev, self.pc + ((atom, truth),), self.ctr)
    def known(self, atom):
        atom, flip = bool_test(atom, True)
        if not flip:
            r = self.known(atom)
            return None if r is None else (not r)
        if atom[0] == 'lit' and isinstance(atom[1], bool):
            return atom[1]
        if atom[0] == 'is' and atom[2] in COMPLEMENT:
            r = self.known(('is', atom[1], COMPLEMENT[atom[2]]))
            return None if r is None else (not r)
        for a, t in self.pc:
            if a == atom:
                return t
        # equality with distinct literals / variant knowledge
        if atom[0] == 'bin' and atom[1] == 'Eq' and atom[3][0] in ('lit', 'ctor'):
            for a, t in self.pc:
                if t and a[0] == 'bin' and a[1] == 'Eq' and a[2] == atom[2] and a[3][0] in ('lit', 'ctor') and a[3] != atom[3]:
                    return False
        if atom[0] == 'is':
            r = self.variant_test(atom[1], atom[2], None)
            if r == 'yes':
                return True
            if r == 'no':
                return False
        if atom[0] == 'bin' and atom[1] in ('Eq', 'Lt', 'Le', 'Gt', 'Ge'):
            return self.interval_decides(atom[1], atom[2], atom[3])
        return None
    def interval_of(self, t):
        """(lo, hi) when t is an integer literal, or a term the path condition bounds by a ('range', t, lo, hi) fact - asserted by
        whoever established it, e.g. the invariant of a collection's members for its generic element -, else None."""
        if t[0] == 'lit':
            return (t[1], t[1]) if isinstance(t[1], int) and not isinstance(t[1], bool) else None
        for a, tr in self.pc:
            if tr and a[0] == 'range' and a[1] == t:
                return (a[2], a[3])
        return None
    def tested_bounds(self, t):
        """(lo, hi) - None on a side that nothing bounds - of the integer term t as far as the path condition says it outright: a
        range fact, and every comparison of t itself with an integer literal that holds or fails on this path (t < n: hi n-1,
        t <= n: hi n, t > n: lo n+1, t >= n: lo n, t == n: both n; a failed comparison is its complement; `n op t` is `t op' n`)."""
        lo = hi = None
        def narrow(l, h):
            nonlocal lo, hi
            if l is not None:
                lo = l if lo is None else max(lo, l)
            if h is not None:
                hi = h if hi is None else min(hi, h)
        isint = lambda x: x[0] == 'lit' and isinstance(x[1], int) and not isinstance(x[1], bool)
        for a, tr in self.pc:
            if a[0] == 'range' and tr and a[1] == t:
                narrow(a[2], a[3])
            elif a[0] == 'bin' and len(a) == 4 and a[1] in ('Eq', 'Lt', 'Le', 'Gt', 'Ge'):
                if a[2] == t and isint(a[3]):
                    op, n = a[1], a[3][1]
                elif a[3] == t and isint(a[2]):
                    op, n = {'Eq': 'Eq', 'Lt': 'Gt', 'Le': 'Ge', 'Gt': 'Lt', 'Ge': 'Le'}[a[1]], a[2][1]
                else:
                    continue
                if not tr:
                    op = {'Lt': 'Ge', 'Le': 'Gt', 'Gt': 'Le', 'Ge': 'Lt', 'Eq': None}[op]
                if op == 'Eq':
                    narrow(n, n)
                elif op == 'Lt':
                    narrow(None, n - 1)
                elif op == 'Le':
                    narrow(None, n)
                elif op == 'Gt':
                    narrow(n + 1, None)
                elif op == 'Ge':
                    narrow(n, None)
        return lo, hi
    def interval_decides(self, op, x, y):
        """Truth of the integer comparison `x op y` when the intervals of both sides decide it for every pair of values, else None:
        x in [a, b], y in [c, d]:  x < y holds if b < c and fails if a >= d;  x <= y holds if b <= c and fails if a > d;
        x == y fails if the intervals are disjoint and holds if both are the same single value;  >, >= by swapping the sides."""
        if x[0] == 'lit' and y[0] == 'lit':
            return None
        ix = self.interval_of(x)
        iy = self.interval_of(y) if ix is not None else None
        if ix is None or iy is None:
            return None
        if op in ('Gt', 'Ge'):
            ix, iy, op = iy, ix, {'Gt': 'Lt', 'Ge': 'Le'}[op]
        (a, b), (c, d) = ix, iy
        if op == 'Lt':
            return True if b < c else False if a >= d else None
        if op == 'Le':
            return True if b <= c else False if a > d else None
        if b < c or d < a:
            return False
        return True if a == b == c == d else None
    def variant_test(self, v, var, siblings):
        if v[0] == 'tryerr' and var in ('Ok', 'Some', 'Err', 'None'):
            # the value a failed `?` leaves a block / closure with is the failure variant: never Ok / Some
            return 'yes' if var in ('Err', 'None') else 'no'
        excluded = set()
        for a, t in self.pc:
            if a[0] == 'is' and a[1] == v:
                if t:
                    return 'yes' if a[2] == var else 'no'
                if a[2] == var:
                    return 'no'
                excluded.add(a[2])
        if siblings and set(siblings) - excluded == {var}:
            return 'yes'
        return 'maybe'
    def fresh(self, tag):
        return ('fresh', tag, self.ctr), St(self.env, self.heap, self.ev, self.pc, self.ctr + 1)

def bool_test(atom, truth):
    """A boolean term compared with a boolean literal is a test of the term itself: `b == true` is b, `b == false` is not b (also
    what a `true` / `false` pattern tests of its scrutinee), `!b` is b with the opposite outcome.  Path conditions record the
    term, so `if !s.contains(x)`, `match s.contains(x) { false => .. }` and `s.contains(x) == false` are one and the same fact."""
    while True:
        if atom[0] == 'not':
            atom, truth = atom[1], not truth
        elif atom[0] == 'bin' and atom[1] == 'Eq' and atom[3][0] == 'lit' and isinstance(atom[3][1], bool) and atom[2][0] != 'lit':
            atom, truth = atom[2], truth == atom[3][1]
        elif atom[0] == 'bin' and atom[1] == 'Eq' and atom[2][0] == 'lit' and isinstance(atom[2][1], bool) and atom[3][0] != 'lit':
            atom, truth = atom[3], truth == atom[2][1]
        else:
            return atom, truth

def is_subplace(k, place):
    while isinstance(k, tuple) and k and k[0] == 'field':
        k = k[1]
        if k == place:
            return True
    return False

COMPLEMENT = {'None': 'Some', 'Err': 'Ok'}

def pc_variant(pc, term_pred, variant):
    """True / False / None: whether the path condition says that a term satisfying term_pred is `variant`
    (None/Err are read through their complements Some/Ok)."""
    want, flip = (COMPLEMENT[variant], True) if variant in COMPLEMENT else (variant, False)
    for a, t in pc:
        if a[0] == 'is' and a[2] == want and term_pred(a[1]):
            return (not t) if flip else t
    return None

class Out:
    __slots__ = ('kind', 'val', 'st', 'target')
    def __init__(self, kind, val, st, target=None):
        self.kind, self.val, self.st, self.target = kind, val, st, target

# observers whose result depends only on their arguments: the same test at two sites is the same atom
PURE_OBSERVERS = {'is_empty', 'len', 'is_some', 'is_none', 'is_ok', 'is_err', 'contains', 'contains_key', 'is_hex_digit', 'is_alphabetic',
                  'is_alphanumeric', 'is_digit', 'is_incomplete', 'input_len', 'is_ref', 'is_intermediate', 'eq', 'ne'}
INT_RANGE = {'u8': (0, 255), 'u16': (0, 65535), 'u32': (0, 2**32 - 1), 'u64': (0, 2**64 - 1), 'usize': (0, 2**64 - 1),
             'i8': (-128, 127), 'i16': (-32768, 32767), 'i32': (-2**31, 2**31 - 1), 'i64': (-2**63, 2**63 - 1), 'isize': (-2**63, 2**63 - 1)}
UNIT = ('tuple', ())
# terms of a local vector whose content the interpreter keeps track of: known elements; a vector + one pushed element; a vector +
# the elements of a list (extend / extend_from_slice)
TRACKED_VEC = ('vec', 'vecpush', 'concat')

def octets_as_vec(v):
    """a byte vector whose octets are all known (the literal byte string a `collect` / `to_vec` of known octets yields) as the
    vector of its elements, so that push / insert on it keep every element known; any other value as it is"""
    if v is not None and v[0] == 'lit' and isinstance(v[1], bytes):
        return ('vec', tuple(('lit', x) for x in v[1]))
    return v
TRUE, FALSE = ('lit', True), ('lit', False)

def int_log2(x):
    """floor(log2 x) of the integer x > 0 (what `ilog2` answers: the position of the highest set bit); None for x <= 0"""
    return x.bit_length() - 1 if x > 0 else None

def lit(v):
    if isinstance(v, list):
        v = bytes(v)
    return ('lit', v)

class Interp:
    def __init__(self, facts, body, summaries=None, unroll=1, inline=None, field_hook=None, for_once=False, result_combinators=True, combinators=False, generic_loops=False,
                 domain=None, local_try=False, places=False, member_range=None):
        self.field_hook = field_hook
        # member_range(node) -> (lo, hi) | None: an invariant of the analysed program, established by the rule that passes it, about
        # every element of the collection the method call `node` operates on (all of them integers within lo..=hi); the models
        # that evaluate a predicate on a generic element of that collection (retain) assume it for that element
        self.member_range = member_range
        self.places = places          # `&mut` locals name the place they were taken from; Vec mutators act on that place (see ref_place)
        # an optional value domain (rules/strdom.py): decides equality / ordering / indexing / iteration of the values it knows
        # (symbolic strings, finite sequences); every hook answers None for "not mine", and the interpreter goes on as without it
        self.domain = domain
        # a `?` inside a helper that the fact loader expanded in place leaves the *helper* (the expanded block takes the failure
        # as its value), not the function the helper was expanded into
        self.local_try = local_try
        self.generic_loops = generic_loops   # evaluate `loop`/`while` once from every state an earlier iteration can leave behind
        self.combinators = combinators    # model Option/Result::{unwrap_or*, ok_or*, map_or*} by cases
        self.result_combinators = result_combinators   # model Result::{map_err, ok, err} by cases instead of as opaque calls
        self.for_once = for_once      # `for` loops run exactly once over a generic element (shape extraction)
        self.facts = facts
        self.body = body            # hirq.Body
        self.summaries = summaries or []   # list of callables (interp, callee, args, node, st) -> [Out] | None
        self.unroll = unroll
        self.inline = inline or (lambda callee: False)
        self.npaths = 0
        self.visited = set()        # id() of every HIR node this interpreter evaluated on some path (see driver.never_taken)

    # ------------------------------------------------------------------ entry
    def run(self, root=None, env=None, heap=None):
        st = St(env or self.param_env(), heap or {})
        root = root if root is not None else self.body.root
        outs = self.ev(root, st)
        return outs

    def param_env(self):
        env = {}
        for b, d in self.body.defs.items():
            if d['kind'] == 'param':
                t = ('param', d['name'])
                if d['proj']:
                    # a parameter taken apart in the signature: every binding is a projection of the one (positional) parameter,
                    # and a struct pattern reads fields exactly as `let S { a, b } = p;` in the body would
                    t = ('param', '#%d' % d['idx'])
                for pr in d['proj']:
                    if pr[0] == 'vfield' and self.is_struct_name(pr[1]):
                        t = field_term(t, pr[2])
                    else:
                        t = proj_term(t, pr)
                env[b] = t
        return env

    def is_struct_name(self, short):
        if not hasattr(self, '_structs'):
            self._structs = {hirq.short_def(k) for k, it in self.facts.items.items() if it.get('kind') == 'Struct'}
        return short in self._structs

    def struct_field_names(self, ty):
        """The field names, in declaration order, of the workspace struct with named fields that the type `ty` (generic arguments
        and references put aside) names; None for any other type (foreign, enum, tuple struct, unit struct)."""
        if not hasattr(self, '_struct_fields'):
            self._struct_fields = {}
            for k, it in self.facts.items.items():
                vs = it.get('variants') or []
                if it.get('kind') == 'Struct' and len(vs) == 1 and vs[0].get('fields') and not any(str(x.get('name', '0')).isdigit() for x in vs[0]['fields']):
                    self._struct_fields[k] = [x['name'] for x in vs[0]['fields']]
        t = hirq.strip_refs(str(ty or ''))
        return self._struct_fields.get(t.split('<', 1)[0])

    # ------------------------------------------------------------------ helpers
    def discr_of(self, short):
        if not hasattr(self, '_discr'):
            self._discr = {}
            for it in self.facts.items.values():
                if it.get('kind') == 'Enum':
                    for v in it['variants']:
                        self._discr[hirq.short_def(v['path'])] = v['discr']
        return self._discr.get(short)

    def inline_call(self, cal, args, node, st):
        """Evaluate a workspace function interprocedurally (fresh environment, shared heap / events / path condition)."""
        rec = self.facts.hir.get(cal) or getattr(self.facts, 'hir_all', {}).get(cal)
        if rec is None or getattr(self, '_depth', 0) > 6:
            return None
        # (the index of a body is read-only and depends on the record alone: built once per callee and fact set)
        bodies = self.facts.__dict__.setdefault('_inline_bodies', {})
        B = bodies.get(id(rec))
        if B is None:
            B = bodies[id(rec)] = hirq.Body(self.facts, rec)
        sub = Interp(self.facts, B, self.summaries, self.unroll, self.inline, self.field_hook, self.for_once, self.result_combinators, self.combinators, self.generic_loops,
                     self.domain, self.local_try, self.places)
        sub._depth = getattr(self, '_depth', 0) + 1
        sub.member_range = self.member_range
        sub.exact_seqs, sub.carry_vecs = self.exact_seqs, self.carry_vecs
        sub.elem_refs = self.elem_refs
        sub.listed_seqs = self.listed_seqs
        sub.carry_env, sub.carry_exact = self.carry_env, self.carry_exact
        sub.cast_ranges = self.cast_ranges
        env = {}
        states = [St(env, st.heap, st.ev, st.pc, st.ctr)]
        for p, a in zip(rec['params'], args):
            nxt = []
            for s in states:
                for kind, s2 in sub.match(p, a, s):
                    if kind != 'no':
                        nxt.append(s2)
            states = nxt
        outs = []
        for s in states:
            for o in sub.ev(B.root, s):
                if o.kind in ('val', 'ret'):
                    outs.append(Out('val', o.val, St(st.env, o.st.heap, o.st.ev, o.st.pc, o.st.ctr)))
                elif o.kind == 'div':
                    outs.append(Out('div', o.val, St(st.env, o.st.heap, o.st.ev, o.st.pc, o.st.ctr)))
        return outs

    def seq(self, exprs, st):
        """Evaluate expressions left to right; returns list of (vals, st) for normal completion and
        list of abnormal Outs."""
        results = [([], st)]
        abn = []
        for e in exprs:
            nxt = []
            for vals, s in results:
                for o in self.ev(e, s):
                    if o.kind == 'val':
                        nxt.append((vals + [o.val], o.st))
                    else:
                        abn.append(o)
            results = nxt
            self.guard(len(results))
        return results, abn

    def guard(self, n):
        if n > MAX_PATHS:
            raise TooManyPaths()

    # ------------------------------------------------------------------ evaluation
    LOG_MACROS = ('warn', 'debug', 'trace', 'info', 'error', 'log', 'log_enabled')

    def ev(self, e, st):
        k = e['k']
        self.visited.add(id(e))
        sp = e.get('sp')
        if sp and len(sp) > 5 and sp[5].rsplit('::', 1)[-1] in self.LOG_MACROS and not getattr(self, 'keep_logging', False):
            # the expansion of a logging macro: level tests and formatting are not part of the behaviour any rule reads
            return [Out('val', UNIT, st.event(('log', sp[5], e)))] if k in ('If', 'Block', 'Match') else self._ev(e, st)
        if self.elem_refs:
            return self.elem_ref_results(e, st, self._ev(e, st))
        return self._ev(e, st)

    elem_refs = False     # (set on an instance, with exact_seqs) references to the elements of a local vector that is known element by
                          # element carry the POSITION of the element they point to, so that `ptr::eq(a, b)` on two of them is decided
                          # (see PlacedBytes, elem_ref_results)

    REF_PRESERVING = ('core::option::Option::<T>::unwrap', 'core::option::Option::<T>::expect')

    def elem_ref_results(self, e, st, outs):
        """Where a position mark (PlacedBytes) may stay on the value of the expression `e`.  The invariant: a marked value at an
        expression of static type `&E` IS the address of that element of that vector.  It is kept by construction:
          * marks are put on by the operations std defines as "a reference to the element at position i" of a local `Vec<E>`:
            first() / last() (here) and the items of iterating `&v` / `v.iter()` (ev_For);
          * a mark survives only where the expression's static type is the reference type it was made at (directly, or as the payload
            of an Option / a component of a tuple): `*r`, `r.clone()`, `r as *const E`, `&r` have another type and lose it - so a
            copy of the element, or a reference to a reference, is never taken for the element's address;
          * the result of every call loses its marks unless the callee hands its receiver's payload on as it is (unwrap / expect):
            no assumption is made about what address another function returns (an identity model is right about values only).
        Everything else (bindings, patterns, blocks, if / match, constructors of Option / tuples, closures) passes references on."""
        k = e['k']
        cal = callee_of(e) if k in ('Call', 'MethodCall') else None
        made = None
        if k == 'MethodCall' and cal in ('core::slice::<impl [T]>::first', 'core::slice::<impl [T]>::last') and not e['args']:
            made = self.elem_ref_source(e['recv'], st)
        elif k == 'MethodCall' and cal is not None and (cal == 'core::iter::traits::iterator::Iterator::last' or cal.endswith(' as core::iter::traits::iterator::Iterator>::last')) and not e['args'] and e['recv']['k'] == 'MethodCall' \
                and callee_of(e['recv']) == 'core::slice::<impl [T]>::iter' and not e['recv']['args']:
            # v.iter().last(): the last item of the slice iterator, i.e. a reference to the last element (None when there is none)
            made = self.elem_ref_source(e['recv']['recv'], st)
        res = []
        for o in outs:
            if o.kind != 'val' or (made is None and not has_place(o.val)):
                res.append(o); continue
            v = o.val
            if made is not None:
                # first() / last() of a non-empty slice: Some(reference to its first / last element), by std's definition
                token, elems, ety = made
                i = 0 if cal.endswith('::first') else len(elems) - 1
                v = strip_places(v)
                if v[0] == 'ctor' and v[1] == 'Some' and len(v[2]) == 1 and elems and v[2][0] == elems[i] and e.get('ty') == 'core::option::Option<&%s>' % ety:
                    v = ('ctor', 'Some', (place_elem(v[2][0], token, i, '&' + ety),))
            elif k in ('Call', 'MethodCall') and cal not in self.REF_PRESERVING and not (k == 'Call' and e['f']['k'] == 'Path' and e['f'].get('defkind', '').startswith('Ctor')):
                v = strip_places(v)     # (a tuple-variant constructor `Some(r)` is a Call too: it holds its argument, by type, below)
            else:
                v = keep_places_of_type(v, e.get('ty') or '')
            res.append(Out(o.kind, v, o.st, o.target))
        return res

    def elem_ref_items(self, it, st, items):
        """The items a `for` loop takes from the iterator expression `it`, marked with their positions when the loop iterates a local
        vector BY REFERENCE in order: `&v` / `v.iter()` yield `&v[0], &v[1], ..` (std: IntoIterator for &Vec<T> is the slice iterator,
        front to back), `.enumerate()` of that pairs each with its index.  Any other iterator expression (by value, reversed, skipped,
        mapped ..): the items as they are, unmarked."""
        def by_ref(x):
            if x['k'] == 'AddrOf' and not x.get('mut'):
                return self.elem_ref_source(x['e'], st) if x['e']['k'] == 'Path' else None
            if x['k'] == 'MethodCall' and callee_of(x) == 'core::slice::<impl [T]>::iter' and not x['args']:
                return self.elem_ref_source(x['recv'], st)
            return None
        enum = it['k'] == 'MethodCall' and (callee_of(it) or '').endswith('core::iter::traits::iterator::Iterator::enumerate') and not it['args']
        src = by_ref(it['recv'] if enum else it)
        if src is None:
            return items
        token, elems, ety = src
        if len(items) != len(elems):
            return items
        out = []
        for i, (x, el) in enumerate(zip(items, elems)):
            if enum:
                if not (x[0] == 'tuple' and len(x[1]) == 2 and x[1][0] == ('lit', i) and x[1][1] == el):
                    return items
                out.append(('tuple', (x[1][0], place_elem(el, token, i, '&' + ety))))
            else:
                if x != el:
                    return items
                out.append(place_elem(el, token, i, '&' + ety))
        return out

    def elem_ref_source(self, recv, st):
        """(token, elements, element type) when `recv` names a local of type Vec<E> - the vector itself, not a reference to one, so
        that two references taken from it while both are alive point into the same unchanged buffer (the borrow checker's
        guarantee) - whose elements are all known; None otherwise."""
        r = hirq.peel_refs(recv)
        ty = r.get('ty') or ''
        if r['k'] != 'Path' or r.get('res') != 'local' or not (ty.startswith('alloc::vec::Vec<') and ty.endswith('>')):
            return None
        cur = st.env.get(r['bind'])
        if cur is None or cur[0] != 'vec' or not ground(cur):
            return None
        return (self.body.path, r['bind']), cur[1], ty[len('alloc::vec::Vec<'):-1]

    def _ev(self, e, st):
        k = e['k']
        m = getattr(self, 'ev_' + k, None)
        if m is None:
            return [Out('val', ('unk', k), st)]
        return m(e, st)

    def ev_Lit(self, e, st):
        return [Out('val', lit(e.get('v')), st)]

    def ev_Path(self, e, st):
        if e.get('res') == 'local':
            b = e['bind']
            if self.places and b in st.env:
                P = self.ref_place(b)
                if P is not None and P[0] != 'param':
                    return [Out('val', self.read_place(P, st), st)]       # a `&mut` local reads the place it names, as it is now
            if b in st.env:
                return [Out('val', st.env[b], st)]
            return [Out('val', ('unbound', b, e.get('name')), st)]
        dk = e.get('defkind', '')
        if dk.startswith('Ctor'):
            return [Out('val', ('ctor', hirq.short_def(e.get('ctor_of') or e.get('def')), ()), st)]
        if dk in ('Fn', 'AssocFn'):
            return [Out('val', ('fn', e.get('inst') or e.get('def')), st)]
        v = hirq.const_eval(self.facts, e)
        if v is not None:
            return [Out('val', ('lit', v), st)]
        if dk.startswith('Const') or dk.startswith('AssocConst'):
            agg = self.const_aggregate(e.get('def'))
            if agg is not None:
                return [Out('val', agg, st)]
        return [Out('val', ('const', e.get('def')), st)]

    def const_aggregate(self, d):
        """The value of a workspace `const` item whose initialiser is an aggregate of known values (an array / tuple / enum-variant
        table such as `[(TagClass, TagStructure); 8]`): a const item denotes the value of its initialiser expression, which is
        evaluated at compile time and depends on nothing - so the path is that value wherever it is mentioned.  Only a completely
        known value is used (exactly one outcome, no calls, every leaf a literal or a constructor); anything else stays ('const', d)."""
        cache = self.facts.__dict__.setdefault('_const_aggregates', {})
        if d not in cache:
            cache[d] = None
            rec = self.facts.hir.get(d) or getattr(self.facts, 'hir_all', {}).get(d)
            if rec is not None and getattr(self, '_depth', 0) <= 6:
                try:
                    sub = Interp(self.facts, hirq.Body(self.facts, rec))
                    sub._depth = getattr(self, '_depth', 0) + 1
                    outs = sub.run(env={})
                except Exception:
                    outs = []
                if len(outs) == 1 and outs[0].kind == 'val' and not outs[0].st.ev and outs[0].val[0] in ('array', 'tuple', 'ctor') and ground(outs[0].val):
                    cache[d] = outs[0].val
                elif len(outs) == 1 and outs[0].kind == 'val' and range_value(outs[0].val) is not None \
                        and all(b is None or b[0] == 'lit' for b in range_value(outs[0].val)[1:]) \
                        and all(ev[0] == 'call' and ev[1] == 'core::ops::range::RangeInclusive::<Idx>::new' for ev in outs[0].st.ev):
                    # a range of literals (`const R: RangeInclusive<u8> = b'a'..=b'z'`; `a..=b` is the call RangeInclusive::new(a, b))
                    cache[d] = outs[0].val
        return cache[d]

    def ev_Tup(self, e, st):
        res, abn = self.seq(e['elems'], st)
        return [Out('val', ('tuple', tuple(v)), s) for v, s in res] + abn

    def ev_Array(self, e, st):
        res, abn = self.seq(e['elems'], st)
        return [Out('val', ('array', tuple(v)), s) for v, s in res] + abn

    def ev_Repeat(self, e, st):
        """`[v; N]` with a literal element; N is read from the array type"""
        import re as _re
        m = _re.match(r'^\[(.+); (\d+)\]$', hirq.strip_refs(e.get('ty') or ''))
        outs = []
        for o in self.ev(e['e'], st):
            if o.kind != 'val':
                outs.append(o); continue
            if m and int(m.group(2)) <= 64 and o.val[0] == 'lit' and isinstance(o.val[1], int) and not isinstance(o.val[1], bool):
                if m.group(1) == 'u8' and 0 <= o.val[1] < 256:
                    outs.append(Out('val', ('lit', bytes([o.val[1]]) * int(m.group(2))), o.st))
                else:
                    outs.append(Out('val', ('array', (o.val,) * int(m.group(2))), o.st))
            else:
                outs.append(Out('val', ('unk', 'Repeat'), o.st))
        return outs

    def ev_Struct(self, e, st):
        exprs = [f['e'] for f in e['fields']]
        names = [f['name'] for f in e['fields']]
        base = e.get('base')
        if base is not None and base.get('k') != 'DefaultFields':
            exprs = exprs + [base]
        res, abn = self.seq(exprs, st)
        outs = []
        d = hirq.short_def(hirq.adt_path(e))
        for v, s in res:
            bv = None
            if len(v) > len(names):
                bv = v[-1]
                v = v[:-1]
            outs.append(Out('val', ('struct', d, tuple(zip(names, v)), bv), s))
        return outs + abn

    def ev_AddrOf(self, e, st):
        inner = e['e']
        if self.elem_refs and not e.get('mut') and inner['k'] == 'Unary' and inner.get('op') == 'Deref' and (inner['e'].get('ty') or '').startswith('&') \
                and inner['e'].get('ty') == e.get('ty'):
            # `&*r` of a shared reference r, at r's own type: a reborrow - the same address (the built-in dereference of a reference,
            # no Deref impl involved), so r's position mark stays; any other `&expr` is evaluated as usual and loses it
            return self.ev(inner['e'], st)
        if self.elem_refs and not e.get('mut') and inner['k'] == 'Index':
            # `&v[i]` with a known i inside the bounds of a local vector known element by element: the address of that element
            src = self.elem_ref_source(inner['e'], st)
            if src is not None and e.get('ty') == '&' + src[2]:
                token, elems, ety = src
                res = []
                for o in self.ev(inner['idx'], st):
                    i = o.val[1] if o.kind == 'val' and o.val[0] == 'lit' else None
                    if isinstance(i, int) and not isinstance(i, bool) and 0 <= i < len(elems):
                        res.append(Out('val', place_elem(elems[i], token, i, '&' + ety), o.st))
                    else:
                        res = None; break
                if res is not None:
                    return res
        outs = self.ev(e['e'], st)
        if e.get('mut') and not self.places and inner.get('k') == 'Path' and inner.get('res') == 'local' and st.env.get(inner['bind'], ('unk',))[0] in TRACKED_VEC:
            # `&mut v` of a local whose elements are tracked is handed to code without a model (the modelled uses - encode_into,
            # mem::take / replace - are intercepted before their arguments are evaluated; with `places` the reference names the
            # place and writes through it are followed): it may change the vector, so the local no longer holds the tracked elements
            outs = [Out(o.kind, o.val, o.st.set(inner['bind'], ('unk', 'vector after &mut'))) if o.kind == 'val' else o for o in outs]
        return outs

    def ev_Cast(self, e, st):
        outs = []
        for o in self.ev(e['e'], st):
            if o.kind == 'val':
                v = o.val
                tty = hirq.strip_refs(str(e.get('ty') or ''))
                if v[0] == 'lit' and isinstance(v[1], str) and len(v[1]) == 1 and tty in INT_RANGE and hirq.strip_refs(str(e['e'].get('ty') or '')) == 'char':
                    # `ch as uN / iN`: the character's code point, then as between integers (below)
                    v = ('lit', ord(v[1]))
                if v[0] == 'lit' and isinstance(v[1], int) and not isinstance(v[1], bool) and tty == 'char' and 0 <= v[1] <= 255:
                    # `b as char` (only u8 casts to char): the character whose code point is the octet
                    outs.append(Out('val', ('lit', chr(v[1])), o.st))
                elif v[0] == 'lit' and isinstance(v[1], int):
                    # `as` between integer types is exact on a literal: the value modulo 2^width of the target type, read in the
                    # target's signedness (truncation, sign- and zero-extension are all this one function of the value)
                    rng = INT_RANGE.get(hirq.strip_refs(str(e.get('ty') or '')))
                    if rng is not None and not isinstance(v[1], bool) and not (rng[0] <= v[1] <= rng[1]):
                        v = ('lit', (v[1] - rng[0]) % (rng[1] - rng[0] + 1) + rng[0])
                    outs.append(Out('val', v, o.st))
                elif v[0] == 'ctor' and not v[2]:
                    # unit variant cast to integer: discriminant if known
                    d = self.discr_of(v[1])
                    outs.append(Out('val', ('lit', d) if d is not None else ('cast', v, e.get('ty')), o.st))
                else:
                    s2 = o.st
                    srng, trng = INT_RANGE.get(hirq.strip_refs(str(e['e'].get('ty') or ''))), INT_RANGE.get(tty)
                    if self.cast_ranges and srng is not None and trng is not None:
                        # `x as T` between integer types is x itself whenever x is representable in T.  Where this path has tested
                        # x against literals, those tests together with the range of x's own type (known here, from the operand's
                        # type - the term does not carry it) bound x; if that interval lies within T the cast term has the same
                        # bounds, recorded as a range fact so that later tests of the cast value are decided from what is known
                        # (`id as i32 >= 0` under `id <= i32::MAX as u64`, id: u64).  Nothing is recorded when the path says
                        # nothing about x, or when the interval does not fit T (the cast may wrap: nothing is claimed).
                        lo, hi = s2.tested_bounds(v)
                        if lo is not None or hi is not None:
                            lo, hi = max(srng[0], srng[0] if lo is None else lo), min(srng[1], srng[1] if hi is None else hi)
                            fact = ('range', ('cast', v, e.get('ty')), lo, hi)
                            if lo <= hi and trng[0] <= lo and hi <= trng[1] and (fact, True) not in s2.pc:
                                s2 = s2.assume(fact, True)
                    outs.append(Out('val', ('cast', v, e.get('ty')), s2))
            else:
                outs.append(o)
        return outs

    def ev_Unary(self, e, st):
        outs = []
        for o in self.ev(e['e'], st):
            if o.kind != 'val':
                outs.append(o); continue
            op = e['op']
            v = o.val
            if op == 'Deref':
                outs.append(o)
            elif op == 'Not' and (e.get('ty') or 'bool') != 'bool':
                # bitwise complement of an integer
                if v[0] == 'lit' and isinstance(v[1], int) and not isinstance(v[1], bool):
                    # exact in the operand's type: on iN `!x` is -x-1 (two's complement), on uN it is (2^N - 1) - x, i.e. the same
                    # bit pattern read as unsigned - so that `flags |= !C`, `x == !C` on literals are the values the program computes
                    rng = INT_RANGE.get(hirq.strip_refs(str(e.get('ty') or '')))
                    r = ~v[1]
                    if rng is not None and rng[0] == 0:
                        r &= rng[1]
                    outs.append(Out('val', ('lit', r), o.st))
                else:
                    outs.append(Out('val', ('bitnot', v), o.st))
            elif op == 'Not':
                outs.append(Out('val', neg_term(v), o.st))
            else:
                if v[0] == 'lit' and isinstance(v[1], int):
                    outs.append(Out('val', ('lit', -v[1]), o.st))
                else:
                    outs.append(Out('val', ('neg', v), o.st))
        return outs

    def ev_Binary(self, e, st):
        op = e['op']
        if op in ('And', 'Or'):
            outs = []
            for o in self.ev(e['l'], st):
                if o.kind != 'val':
                    outs.append(o); continue
                for truth, s in self.decide(o.val, o.st):
                    if (op == 'And' and not truth):
                        outs.append(Out('val', FALSE, s))
                    elif (op == 'Or' and truth):
                        outs.append(Out('val', TRUE, s))
                    else:
                        outs.extend(self.ev(e['r'], s))
            return outs
        res, abn = self.seq([e['l'], e['r']], st)
        outs = []
        for (a, b), s in res:
            done = False
            if e.get('callee'):
                # overloaded operator: a rule may supply the semantics of the impl it resolved to
                for sm in self.summaries:
                    r = sm(self, e['callee'] + '#' + op, [a, b], e, s)
                    if r is not None:
                        outs.extend(r); done = True
                        break
            if not done and self.domain is not None:
                dv = self.domain.binop(op, a, b)
                if dv is not None:
                    outs.append(Out('val', ('lit', dv), s)); done = True
            if not done:
                r = bin_term(op, a, b)
                if op in ('Add', 'Sub', 'Mul', 'Shl') and a[0] == 'lit' and b[0] == 'lit' and r[0] == 'lit' and isinstance(r[1], int) and not isinstance(r[1], bool):
                    rng = INT_RANGE.get(hirq.strip_refs(e.get('ty') or ''))
                    if op == 'Shl' and rng is not None:
                        # `<<` drops the bits shifted out; only a shift amount >= the bit width is an overflow
                        width = (rng[1] - rng[0] + 1).bit_length() - 1
                        if 0 <= b[1] < width:
                            v = (a[1] << b[1]) & ((1 << width) - 1)
                            if rng[0] < 0 and v > rng[1]:
                                v -= 1 << width
                            outs.append(Out('val', ('lit', v), s))
                            continue
                    if rng is not None and not (rng[0] <= r[1] <= rng[1]):
                        # exact evaluation on literals: the debug-profile overflow check would fire here
                        outs.append(Out('div', UNIT, s.event(('overflow', op, a, b, e))))
                        continue
                outs.append(Out('val', self.arith_result(op, r, e.get('ty')), s))
        return outs + abn

    def arith_result(self, op, r, ty):
        """The term of a built-in binary operation computed in type `ty`.  Terms carry no types; an interpreter that has to reason
        about wrap-around (rules/framelen.py) overrides this to record the type the operation is computed in."""
        return r

    def ev_Field(self, e, st):
        outs = []
        for o in self.ev(e['e'], st):
            if o.kind != 'val':
                outs.append(o); continue
            outs.append(Out('val', self.read_field(o.val, e['name'], o.st), o.st))
        return outs

    def read_field(self, base, name, st):
        if self.field_hook is not None:
            r = self.field_hook(base, name, st)
            if r is not None:
                return r
        place = ('field', base, name)
        if place in st.heap:
            return st.heap[place]
        return field_term(base, name)

    # ------------------------------------------------------------------ places behind `&mut` locals (option `places`)
    # A term such as self.ldap.Some#0.controls names a place *and* the value the place held on entry.  A local of type `&mut T`
    # that was bound once, to a field / Option-payload chain rooted in a parameter, is a name for that place for as long as it
    # lives (the borrow checker guarantees that nothing else writes the place meanwhile): reading the local reads the place as it
    # is *now*, and a mutating call on the local is a store to the place.
    OPTION_REBORROWS = ('as_mut', 'as_ref', 'as_deref', 'as_deref_mut')       # Option<T> place -> Option<&T>: same place
    OPTION_PAYLOADS = ('unwrap', 'expect', 'unwrap_unchecked')                # -> the payload of the good variant
    OPTION_INSERTERS = ('insert', 'get_or_insert', 'get_or_insert_with', 'get_or_insert_default')   # -> the payload of the option they leave Some

    def place_of(self, e, depth=0):
        """The place a place expression denotes (a term rooted in a parameter), or None.  Purely structural."""
        if depth > 40:
            return None
        e = hirq.peel_refs(e)
        k = e['k']
        if k == 'Path' and e.get('res') == 'local':
            return self.ref_place(e['bind'], depth + 1)
        if k == 'Field':
            b = self.place_of(e['e'], depth + 1)
            return ('field', b, e['name']) if b is not None else None
        if k == 'MethodCall':
            cal = callee_of(e) or ''
            name = cal.rsplit('::', 1)[-1]
            good = 'Some' if cal.startswith('core::option::Option::<T>::') else 'Ok' if cal.startswith('core::result::Result::<T, E>::') else None
            if good is not None and name in self.OPTION_REBORROWS and not e['args']:
                return self.place_of(e['recv'], depth + 1)
            if good is not None and name in self.OPTION_PAYLOADS:
                b = self.place_of(e['recv'], depth + 1)
                return ('variant', b, good, 0) if b is not None else None
            if good == 'Some' and name in self.OPTION_INSERTERS:
                # insert / get_or_insert*: the `&mut T` they return points at the payload of the option they were called on
                b = self.place_of(e['recv'], depth + 1)
                return ('variant', b, 'Some', 0) if b is not None else None
        if k == 'Try':
            b = self.place_of(e['e'], depth + 1)
            good = 'Some' if (e['e'].get('ty') or '').startswith('core::option::Option') else 'Ok'
            return ('variant', b, good, 0) if b is not None else None
        return None

    def ref_place(self, b, depth=0):
        """The place a local names: a parameter is its own root; a `&mut` local bound once (let / if-let / match arm) names the
        place its initialiser denotes, projected as its pattern says (`Some(x)` -> the payload, `S { f, .. }` -> the field)."""
        cache = self.__dict__.setdefault('_ref_places', {})
        if b in cache:
            return cache[b]
        cache[b] = None           # (cycle guard)
        d = self.body.defs.get(b)
        r = None
        if d is not None and d['kind'] == 'param' and not d['proj']:
            r = ('param', d['name'])
        elif d is not None and d['kind'] in ('let', 'letexpr', 'arm') and d['src'] is not None and not any(a['l']['k'] == 'Path' for a in self.body.assigns.get(b, ())) \
                and (d['pat'].get('ty') or '').startswith('&mut '):
            r = self.place_of(d['src'], depth + 1)
            for pr in d['proj']:
                if r is None:
                    break
                if pr[0] == 'variant' and pr[1] in ('Some', 'Ok') and pr[2] == 0:
                    r = ('variant', r, pr[1], 0)
                elif pr[0] == 'vfield' and self.is_struct_name(pr[1]):
                    r = ('field', r, pr[2])
                elif pr[0] == 'tup':
                    r = ('field', r, str(pr[1]))
                else:
                    r = None
        cache[b] = r
        return r

    def read_place(self, P, st):
        """What the place holds now (stores on this path included)."""
        if P[0] == 'field':
            return self.read_field(self.read_place(P[1], st), P[2], st)
        if P[0] == 'variant':
            o = self.read_place(P[1], st)
            if o[0] == 'ctor' and o[1] == P[2] and P[3] < len(o[2]):
                return o[2][P[3]]
            return ('variant', o, P[2], P[3])
        return P

    def write_place(self, P, val, st, node):
        """Store val to the place.  Writing the payload of an Option place writes Some(val): whoever holds a reference to the
        payload has found the option in that variant."""
        if P[0] == 'field':
            place = ('field', self.read_place(P[1], st), P[2])
            return st.store(place, val).event(('store', place, val, node))
        if P[0] == 'variant' and P[3] == 0:
            return self.write_place(P[1], ('ctor', P[2], (val,)), st, node)
        return st.event(('store-unknown', P, val, node))

    def vec_target(self, recv):
        """What a Vec method's receiver expression stands for: an owned local vector ('local', binding), or - with `places` - the
        place behind a `&mut Vec` local / a place expression ('place', P).  None: not a vector this interpreter keeps track of."""
        r = hirq.peel_refs(recv)
        if r['k'] == 'Path' and r.get('res') == 'local':
            P = self.ref_place(r['bind']) if self.places else None
            if P is not None and P[0] != 'param':
                return ('place', P)
            return ('local', r['bind'])
        if self.places:
            P = self.place_of(r)
            if P is not None and P[0] != 'param':
                return ('place', P)
        return None

    # A term ('cell', key) is a reference (`&mut T` / `&T`) to a value that lives in the heap under that very term: it is handed out by
    # a model that owns a store of its own (the values of a map whose keys are all known, rules/assocmap.py).  A local that holds
    # such a term is a name for the cell for as long as it lives (the borrow checker: nothing else touches the cell meanwhile), so
    # a Vec method on the local reads and writes the cell - not the local, which goes on holding the reference.
    def vec_read(self, tgt, st):
        if tgt[0] == 'cell':
            return st.heap.get(tgt[1], ('unk', 'cell'))
        if tgt[0] == 'local':
            v = st.env.get(tgt[1], ('unk', 'vec'))
            return st.heap.get(v, ('unk', 'cell')) if v[0] == 'cell' else v
        return self.read_place(tgt[1], st)

    def vec_write(self, tgt, val, st, node):
        if tgt[0] == 'cell':
            return st.store(tgt[1], val)
        if tgt[0] == 'local':
            v = st.env.get(tgt[1])
            return st.store(v, val) if v is not None and v[0] == 'cell' else st.set(tgt[1], val)
        return self.write_place(tgt[1], val, st, node)

    def ev_Index(self, e, st):
        res, abn = self.seq([e['e'], e['idx']], st)
        outs = []
        for (a, b), s in res:
            if a[0] == 'lit' and isinstance(a[1], bytes) and b[0] == 'lit' and isinstance(b[1], int) and b[1] < len(a[1]):
                outs.append(Out('val', ('lit', a[1][b[1]]), s))
            elif a[0] == 'lit' and isinstance(a[1], bytes) and b[0] == 'struct' and b[1].rsplit('::', 1)[-1] in ('RangeFrom', 'RangeTo', 'Range', 'RangeFull') \
                    and all(v[0] == 'lit' and isinstance(v[1], int) for n_, v in b[2]):
                fl = dict(b[2])
                lo = fl['start'][1] if 'start' in fl else 0
                hi = fl['end'][1] if 'end' in fl else len(a[1])
                if 0 <= lo <= hi <= len(a[1]):
                    outs.append(Out('val', ('lit', a[1][lo:hi]), s))
                else:
                    outs.append(Out('div', UNIT, s.event(('panic', 'slice index out of range', (a, b), e))))
            elif a[0] == 'lit' and isinstance(a[1], str) and b[0] == 'struct' and b[1].rsplit('::', 1)[-1] in ('RangeFrom', 'RangeTo', 'Range', 'RangeFull') \
                    and all(v[0] == 'lit' and isinstance(v[1], int) for n_, v in b[2]):
                # `s[a..b]` of a known str: byte offsets into its UTF-8 encoding; panics when out of range or not on a character
                # boundary (std, `impl Index<Range..> for str`), else the sub-string
                enc = a[1].encode('utf-8')
                fl = dict(b[2])
                lo = fl['start'][1] if 'start' in fl else 0
                hi = fl['end'][1] if 'end' in fl else len(enc)
                boundary = lambda k: k == len(enc) or (0 <= k < len(enc) and (enc[k] & 0xC0) != 0x80)
                if 0 <= lo <= hi <= len(enc) and boundary(lo) and boundary(hi):
                    outs.append(Out('val', ('lit', enc[lo:hi].decode('utf-8')), s))
                else:
                    outs.append(Out('div', UNIT, s.event(('panic', 'str slice index out of range / not a char boundary', (a, b), e))))
            elif ((self.exact_seqs and a[0] == 'vec' and ground(a)) or a[0] == 'array') and b[0] == 'lit' and isinstance(b[1], int) and not isinstance(b[1], bool):
                # an array expression (or, with exact_seqs, a vector whose elements are all known) at a literal position: that element,
                # or the bounds-check panic
                if 0 <= b[1] < len(a[1]):
                    outs.append(Out('val', a[1][b[1]], s))
                else:
                    outs.append(Out('div', UNIT, s.event(('panic', 'index out of bounds', (a, b), e))))
            else:
                r = self.domain.index(self, a, b, e, s) if self.domain is not None else None
                if r is not None:
                    outs.extend(r)
                else:
                    outs.append(Out('val', ('index', a, b), s.event(('index', a, b, e))))
        return outs + abn

    def ev_Block(self, e, st):
        states = [st]
        abn = []
        for s_ in e['stmts']:
            nxt = []
            for s in states:
                if s_['k'] == 'Let':
                    if s_.get('init') is None:
                        nxt.append(s); continue
                    for o in self.ev(s_['init'], s):
                        if o.kind != 'val':
                            abn.append(o); continue
                        for kind, s2 in self.match(s_['pat'], o.val, o.st):
                            if kind == 'yes':
                                nxt.append(s2)
                            elif kind == 'maybe':
                                sy, sns = self.split_maybe(s_['pat'], o.val, o.st, s2)
                                if sy is not None:
                                    nxt.append(sy)
                                if s_.get('els') is not None:
                                    for sn in sns:
                                        abn.extend(x for x in self.ev(s_['els'], sn) if x.kind != 'val')
                            else:
                                if s_.get('els') is not None:
                                    abn.extend(x for x in self.ev(s_['els'], o.st) if x.kind != 'val')
                elif s_['k'] in ('Expr', 'Semi'):
                    for o in self.ev(s_['e'], s):
                        if o.kind == 'val':
                            nxt.append(o.st)
                        else:
                            abn.append(o)
                else:
                    nxt.append(s)
            states = nxt
            self.guard(len(states) + len(abn))
        outs = []
        if e.get('expr') is not None:
            for s in states:
                outs.extend(self.ev(e['expr'], s))
        else:
            outs = [Out('val', UNIT, s) for s in states]
        # labelled block: break 'label value
        res = []
        for o in outs + abn:
            if o.kind == 'brk' and o.target is not None and o.target == e.get('id'):
                res.append(Out('val', o.val, o.st))
            else:
                res.append(o)
        # scope end: a local of a workspace type with a Drop impl (a guard) is dropped on every way out of the block - normal
        # completion, `?`, return, break - in reverse order of declaration; the impl's body is evaluated on the value the local holds.
        # The events it produces are bracketed by ('drop', 'begin' / 'end', type) so that a rule can tell what happens in a
        # destructor (which also runs when a pending future is dropped) from what the function does explicitly.
        guards = [(s_['pat']['bind'], self.drop_impl(s_['pat'].get('ty'))) for s_ in e['stmts']
                  if s_['k'] == 'Let' and s_['pat'].get('k') == 'Bind' and self.drop_impl(s_['pat'].get('ty'))]
        if guards:
            res2 = []
            for o in res:
                cur = [o]
                for b, impl in reversed(guards):
                    nxt = []
                    for oo in cur:
                        if b not in oo.st.env:
                            nxt.append(oo); continue
                        st0 = oo.st.event(('drop', 'begin', impl))
                        done = self.inline_call(impl, [st0.env[b]], e, st0) or []
                        ends = [Out(oo.kind, oo.val, d.st.event(('drop', 'end', impl)), oo.target) for d in done if d.kind == 'val']
                        nxt.extend(ends or [oo])
                    cur = nxt
                res2.extend(cur)
            res = res2
        return res

    def drop_impl(self, ty):
        """def path of `<T as Drop>::drop` for a workspace type T (by its path, generic arguments aside), or None"""
        tab = getattr(self.facts, '_drop_impls', None)
        if tab is None:
            tab = {}
            for p in getattr(self.facts, 'hir_all', self.facts.hir):
                m_ = re.match(r'<(.+) as core::ops::drop::Drop>::drop$', p)
                if m_:
                    tab[re.sub(r'<.*', '', m_.group(1))] = p
            self.facts._drop_impls = tab
        return tab.get(re.sub(r'<.*', '', (ty or '').lstrip('&').replace('mut ', '')))

    def decide(self, v, st):
        """Split on the truth of term v: returns [(bool, state)]."""
        if v == TRUE:
            return [(True, st)]
        if v == FALSE:
            return [(False, st)]
        if v[0] == 'not':
            return [(not t, s) for t, s in self.decide(v[1], st)]
        k = st.known(v)
        if k is not None:
            return [(k, st)]
        return [(True, st.assume(v, True)), (False, st.assume(v, False))]

    def split_maybe(self, pat, val, s_before, s_yes):
        """For a 'maybe' match: returns (state where it matched or None, [states where it did not]).
        A pattern with several refutable parts (`Some(T { rc: 0, .. })`, `(Some(a), Ok(b))`) matches when every one of its tests a1 .. an
        holds - the atoms the yes side added to the path condition, in the order the pattern states them; every refutable part records
        one (see `match`: a part the interpreter cannot read records an opaque `matches` atom).  It fails exactly when one of them
        fails: the cases (not a1), (a1 and not a2), .., (a1 .. a(n-1) and not an) are mutually exclusive and together the complement
        of the conjunction, so the states handed on for "did not match" are those n - each says which test failed, none is a state
        "about which nothing is known"."""
        new = list(s_yes.pc[len(s_before.pc):])
        if len(new) == 1:
            return s_yes, [s_before.assume(new[0][0], not new[0][1])]
        if len(new) == 0:
            atom = self.top_atom(pat, val)
            kn = s_before.known(atom)
            if kn is True:
                return s_yes, []
            if kn is False:
                return None, [s_before]
            return s_yes.assume(atom, True), [s_before.assume(atom, False)]
        for a, t in new:
            if t and a[0] == 'is' and a[2] not in COMPLEMENT.values() and any(b[0] == 'is' and b[1] == a[1] and not bt for b, bt in s_before.pc):
                # possibly a variant "known by exclusion, made explicit" (no test of its own, its negation is no case): nothing
                # definite is said about the failure
                return s_yes, [s_before]
        outs, s = [], s_before
        for a, t in new:
            kn = s.known(a)
            if kn is None:
                outs.append(s.assume(a, not t))
            elif kn != t:
                break               # the yes side itself is contradictory from here on
            s = s.assume(a, t)
        return s_yes, outs

    def ev_LetExpr(self, e, st):
        outs = []
        for o in self.ev(e['init'], st):
            if o.kind != 'val':
                outs.append(o); continue
            for kind, s2 in self.match(e['pat'], o.val, o.st):
                if kind == 'yes':
                    outs.append(Out('val', TRUE, s2))
                elif kind == 'no':
                    outs.append(Out('val', FALSE, s2))
                else:
                    sy, sns = self.split_maybe(e['pat'], o.val, o.st, s2)
                    if sy is not None:
                        outs.append(Out('val', TRUE, sy))
                    outs.extend(Out('val', FALSE, sn) for sn in sns)
        return outs

    def ev_If(self, e, st):
        outs = []
        for o in self.ev(e['cond'], st):
            if o.kind != 'val':
                outs.append(o); continue
            for truth, s in self.decide(o.val, o.st):
                if truth:
                    outs.extend(self.ev(e['then'], s))
                elif e.get('els') is not None:
                    outs.extend(self.ev(e['els'], s))
                else:
                    outs.append(Out('val', UNIT, s))
        self.guard(len(outs))
        return outs

    def ev_Match(self, e, st):
        outs = []
        for o in self.ev(e['scrut'], st):
            if o.kind != 'val':
                outs.append(o); continue
            pending = [o.st]
            arms = []
            for arm in e['arms']:
                if arm['pat'].get('k') == 'POr':
                    arms.extend({'pat': alt, 'guard': arm.get('guard'), 'body': arm['body']} for alt in arm['pat']['pats'])
                else:
                    arms.append(arm)
            for ai, arm in enumerate(arms):
                nxt_pending = []
                for s in pending:
                    for kind, s2 in self.match(arm['pat'], o.val, s):
                        if kind == 'no':
                            nxt_pending.append(s2); continue
                        if kind == 'maybe':
                            sy, sns = self.split_maybe(arm['pat'], o.val, s, s2)
                            nxt_pending.extend(sns)
                            if sy is None:
                                continue
                            s2 = sy
                        if arm.get('guard') is not None:
                            for g in self.ev(arm['guard'], s2):
                                if g.kind != 'val':
                                    outs.append(g); continue
                                for truth, s3 in self.decide(g.val, g.st):
                                    if truth:
                                        outs.extend(self.ev(arm['body'], s3))
                                    else:
                                        # guard failed: fall to the following arms without this arm's bindings
                                        nxt_pending.append(St(s.env, s3.heap, s3.ev, s3.pc, s3.ctr))
                        else:
                            outs.extend(self.ev(arm['body'], s2))
                pending = nxt_pending
                if not pending:
                    break
            # states left in `pending` matched no arm: infeasible for exhaustive matches
            self.guard(len(outs))
        return outs

    def ev_Loop(self, e, st):
        return self.loop_common(e, st, lambda s: self.ev(e['body'], s), always=True)

    def ev_While(self, e, st):
        def one(s):
            outs = []
            for o in self.ev(e['cond'], s):
                if o.kind != 'val':
                    outs.append(o); continue
                for truth, s2 in self.decide(o.val, o.st):
                    if truth:
                        outs.extend(self.ev(e['body'], s2))
                    else:
                        outs.append(Out('brk', UNIT, s2, e.get('id')))
            return outs
        return self.loop_common(e, st, one, always=True)

    def literal_elems(self, itv):
        """The elements of an iterator value that is a literal sequence: a range of literals (possibly reversed), literal bytes."""
        rev = False
        while itv[0] == 'call' and itv[1].rsplit('::', 1)[-1] in ('rev', 'into_iter', 'iter') and len(itv[2]) == 1:
            if itv[1].rsplit('::', 1)[-1] == 'rev':
                rev = not rev
            itv = itv[2][0]
        el = None
        if itv[0] == 'struct' and itv[1].rsplit('::', 1)[-1] in ('Range', 'RangeInclusive'):
            fl = dict(itv[2])
            a, b = fl.get('start'), fl.get('end')
            if a and b and a[0] == 'lit' and b[0] == 'lit' and isinstance(a[1], int) and isinstance(b[1], int) and b[1] - a[1] <= 64:
                el = [('lit', x) for x in range(a[1], b[1] + (1 if itv[1].endswith('RangeInclusive') else 0))]
        elif itv[0] == 'lit' and isinstance(itv[1], bytes) and len(itv[1]) <= 128:
            el = [('lit', x) for x in itv[1]]
        elif self.exact_seqs and itv[0] in ('vec', 'array') and len(itv[1]) <= 64 and ground(itv):
            el = list(itv[1])           # a vector / array all of whose elements are known values
        elif self.exact_seqs and itv[0] == 'enumerate' and len(itv) == 2:
            inner = self.literal_elems(itv[1])
            if inner is not None:
                el = [('tuple', (('lit', i), x)) for i, x in enumerate(inner)]
        if el is None:
            return None
        return list(reversed(el)) if rev else el

    def listed_elems(self, itv):
        """literal_elems restricted to (iterators over) vectors / arrays whose elements are all known values: the elements in the order
        the iterator yields them, None for anything else (ranges and byte strings have models of their own)."""
        b = itv
        while b[0] == 'call' and b[1].rsplit('::', 1)[-1] in ('rev', 'into_iter', 'iter') and len(b[2]) == 1:
            b = b[2][0]
        if not self.exact_seqs or b[0] not in ('vec', 'array'):
            return None
        return self.literal_elems(itv)

    def ev_For(self, e, st):
        outs = []
        for o in self.ev(e['iter'], st):
            if o.kind != 'val':
                outs.append(o); continue
            itv = o.val
            lits = self.literal_elems(itv) if not self.for_once else None
            if lits is None and self.domain is not None and not self.for_once:
                # a sequence whose elements the domain knows one by one (the pieces of a split symbolic string): run exactly over them
                lits = self.domain.iter_elems(self, itv, o.st, e)
            if lits is not None and self.elem_refs:
                lits = self.elem_ref_items(e['iter'], o.st, lits)
            if lits is not None:
                # a loop over a literal sequence runs exactly over its elements
                states = [o.st]
                for x in lits:
                    nxt = []
                    for s0 in states:
                        for kind, s2 in self.match(e['pat'], x, s0):
                            if kind == 'no':
                                continue
                            for b in self.ev(e['body'], s2):
                                if b.kind == 'val' or (b.kind == 'cont' and (b.target is None or b.target == e.get('id'))):
                                    nxt.append(b.st)
                                elif b.kind == 'brk' and (b.target is None or b.target == e.get('id')):
                                    outs.append(Out('val', UNIT, b.st))
                                else:
                                    outs.append(b)
                    states = nxt
                outs.extend(Out('val', UNIT, s0) for s0 in states)
                continue
            if self.for_once:
                def body_outs(s0, itv=itv):
                    res = []
                    el, s1 = s0.fresh('elem')
                    el = ('elem', itv, el[2])
                    for kind, s2 in self.match(e['pat'], el, s1):
                        if kind != 'no':
                            res.extend(self.ev(e['body'], s2))
                    return res
                def back(b):
                    return b.kind == 'val' or (b.kind == 'cont' and (b.target is None or b.target == e.get('id')))
                for s0 in self.carried_states(e, o.st, lambda s: [b.st for b in body_outs(s) if back(b)]):
                    for b in body_outs(s0):
                        if back(b) or (b.kind == 'brk' and (b.target is None or b.target == e.get('id'))):
                            outs.append(Out('val', UNIT, b.st))
                        else:
                            outs.append(b)
                continue
            def one(s, itv=itv):
                res = [Out('brk', UNIT, s.assume(('for-more', e.get('id'), s.ctr), False), e.get('id'))]
                el, s1 = s.fresh('elem')
                el = ('elem', itv, el[2])
                for kind, s2 in self.match(e['pat'], el, s1):
                    if kind != 'no':
                        res.extend(self.ev(e['body'], s2))
                return res
            # the iteration that is analysed stands for *any* iteration: it starts in every state an earlier one can leave
            # behind in the locals declared outside the body (a flag hoisted out of the loop is seen with both its values)
            def back_states(s, one=one):
                return [b.st for b in one(s) if b.kind == 'val' or (b.kind == 'cont' and (b.target is None or b.target == e.get('id')))]
            for s0 in self.carried_states(e, o.st, back_states, keep_initial=True):
                outs.extend(self.loop_common(e, s0, one, always=True))
        return outs

    cast_ranges = False   # (set on an instance) an integer cast of a value this path has tested against literals records the bounds of the
                          # cast value as a ('range', ..) fact of the path condition, see ev_Cast (off by default: rules that read every
                          # atom of a path condition as a branch condition of the analysed code keep seeing only those)
    exact_seqs = False    # (set on an instance) vectors / arrays all of whose elements are known values are evaluated element by element:
                          # index, for, pop, extend, enumerate / map / filter, any / all / position / find / count, first / last /
                          # split_last / windows (literal evaluation of list-valued code; off by default: rules that read the
                          # *generic element* of an adaptor over a `vec![]` local keep seeing it)
    listed_seqs = False   # (set on an instance) a sequence whose elements are listed one by one - ('vec', xs) / ('array', xs): exactly those
                          # elements in that order, whatever each of them is - is *known by position*: the iterator adaptors (enumerate,
                          # flatten, map / filter / filter_map with a closure, zip, chain, rev, collect) are evaluated on it element by
                          # element, also when it is itself the result of such an adaptor (a whole chain is decided), instead of once
                          # on a generic element.  Off by default for the same reason as exact_seqs.
    carry_vecs = False    # (set on an instance) local vectors pushed to in a loop body are loop-carried too, see carried_states
    carry_env = False     # (set on an instance) loop-carried locals are found on the *paths* of the body as well: a local bound outside
                          # the loop whose value at a back edge is not the value it entered the loop with is carried, whatever changed it
                          # (an assignment, a push / pop / truncate on an owned vector, any model that rebinds the local); and a carried
                          # value that is not a literal is kept exactly for the first `carry_exact` values (the entry value and what one
                          # trip around the loop makes of it) before the rest is widened to an unknown, so that a rule can say *what*
                          # arrives at the loop head the second time
    carry_exact = 2

    def carried_states(self, loop, st, runner, keep_initial=False):
        """The generic iteration of a loop starts in any state an earlier iteration can leave behind.  Candidates are the locals
        declared outside the loop body and assigned inside it; the values they can carry are found by a small fixpoint iteration:
        run the body (runner(state) -> states that reach the back edge) from the states known so far and collect the candidates'
        values there.  Literal values are enumerated exactly, a boolean that receives a computed value takes both values, anything
        else becomes an unknown ('carried', binding, n).  A variable whose every assignment leaves the loop is therefore not carried."""
        cand, isbool = [], {}
        for n, _c in facts_mod.walk(loop['body']):
            if n.get('k') in ('Assign', 'AssignOp'):
                l = hirq.peel_refs(n['l'])
                if l.get('k') == 'Path' and l.get('res') == 'local' and l['bind'] in st.env:
                    if l['bind'] not in cand:
                        cand.append(l['bind'])
                    isbool[l['bind']] = hirq.strip_refs(n['l'].get('ty') or '') == 'bool'
        wide = set()
        if self.carry_vecs:
            # a local vector the body pushes to is carried as well: the generic iteration starts with whatever the earlier ones have
            # left in it (an unknown ('carried', binding, n)); what the body adds is then a 'vecpush' on top of that unknown
            for n, _c in facts_mod.walk(loop['body']):
                if n.get('k') == 'MethodCall' and (callee_of(n) or '').endswith('alloc::vec::Vec::<T, A>::push'):
                    r = hirq.peel_refs(n['recv'])
                    if r.get('k') == 'Path' and r.get('res') == 'local' and r['bind'] not in cand \
                            and st.env.get(r['bind'], ('unk',))[0] in ('vec', 'vecpush', 'carried'):
                        cand.append(r['bind']); isbool[r['bind']] = False; wide.add(r['bind'])
        if self.carry_env:
            # read off the paths: run the body once from the entry state and compare, at every back edge, what the locals that
            # were bound before the loop hold with what they held at entry (sound as a *discovery* of candidates: the fixpoint below
            # then follows each of them around the loop as often as it takes)
            self.in_fixpoint = getattr(self, 'in_fixpoint', 0) + 1
            try:
                back0 = runner(st)
            finally:
                self.in_fixpoint -= 1
            for sb in back0:
                for b, v0 in st.env.items():
                    if b not in cand and b in sb.env and sb.env[b] != v0:
                        d = self.body.defs.get(b) or {}
                        cand.append(b); isbool[b] = hirq.strip_refs(((d.get('pat') or {}).get('ty')) or '') == 'bool'
        if not cand:
            return [st]
        cand.sort()
        vals = {b: [st.env[b]] for b in cand}
        def simple(v):
            return v[0] == 'lit' or v == UNIT or (v[0] == 'ctor' and all(simple(x) for x in v[2]))
        def product(events):
            states = [st]
            for b in cand:
                nxt = []
                for s in states:
                    if b in wide:
                        u, s2 = s.fresh('carried')
                        t = ('carried', b, u[2])
                        nxt.append(s2.set(b, t).event(('loop-carried', b, t, loop, st.env[b])) if events else s2.set(b, t))
                        if self.carry_env and events:
                            # ... and the values the first trips around the loop were seen to leave, exactly (the unknown stands for
                            # all later ones)
                            for v in vals[b]:
                                nxt.append(s.set(b, v).event(('loop-carried', b, v, loop, st.env[b])))
                        elif keep_initial and events:
                            # the first iteration (and the exit after none) sees the exact initial value
                            nxt.append(s.event(('loop-carried', b, st.env[b], loop, st.env[b])))
                    else:
                        for v in vals[b]:
                            nxt.append(s.set(b, v).event(('loop-carried', b, v, loop, st.env[b])) if events else s.set(b, v))
                states = nxt
                self.guard(len(states))
            return states
        for _round in range(4):
            changed = False
            for s in product(False):
                # (a field hook may consult `in_fixpoint` to stay out of the way while the carried values are being discovered)
                self.in_fixpoint = getattr(self, 'in_fixpoint', 0) + 1
                try:
                    back = runner(s)
                finally:
                    self.in_fixpoint -= 1
                for sb in back:
                    for b in cand:
                        v = sb.env.get(b)
                        if v is None or b in wide or v in vals[b] or (v[0] == 'carried' and v[1] == b):
                            continue
                        if simple(v) and len(vals[b]) < 4:
                            vals[b].append(v); changed = True
                        elif isbool[b]:
                            for x in (FALSE, TRUE):
                                if x not in vals[b]:
                                    vals[b].append(x); changed = True
                        elif self.carry_env and len(vals[b]) < self.carry_exact:
                            vals[b].append(v); changed = True
                        else:
                            wide.add(b); changed = True
            if not changed:
                break
        else:
            wide.update(cand)
        if all(b not in wide and len(vals[b]) == 1 for b in cand):
            return [st]
        return product(True)

    def generic_loop(self, e, st, one):
        """One generic iteration: the loop body evaluated from each state the back edge can carry (see carried_states).  Exits
        become values; a path that reaches the back edge ends as Out('loop') - the next iteration is the same generic one."""
        lid = e.get('id')
        def is_back(o):
            return o.kind == 'val' or (o.kind == 'cont' and (o.target is None or o.target == lid))
        outs = []
        for s0 in self.carried_states(e, st, lambda s: [o.st for o in one(s) if is_back(o)]):
            for o in one(s0):
                if o.kind == 'brk' and (o.target is None or o.target == lid):
                    outs.append(Out('val', o.val, o.st))
                elif is_back(o):
                    outs.append(Out('loop', UNIT, o.st, lid))
                else:
                    outs.append(o)
        return outs

    def loop_common(self, e, st, one, always):
        if self.generic_loops and e.get('k') in ('Loop', 'While'):
            return self.generic_loop(e, st, one)
        lid = e.get('id')
        outs = []
        states = [st]
        for it in range(self.unroll):
            nxt = []
            for s in states:
                for o in one(s):
                    if o.kind == 'brk' and (o.target is None or o.target == lid):
                        outs.append(Out('val', o.val, o.st))
                    elif o.kind == 'cont' and (o.target is None or o.target == lid):
                        nxt.append(o.st)
                    elif o.kind == 'val':
                        nxt.append(o.st)
                    else:
                        outs.append(o)
            states = nxt
            self.guard(len(states) + len(outs))
        for s in states:
            outs.append(Out('loop', UNIT, s, lid))
        return outs

    def ev_Break(self, e, st):
        if e.get('e') is not None:
            outs = []
            for o in self.ev(e['e'], st):
                outs.append(Out('brk', o.val, o.st, e.get('target')) if o.kind == 'val' else o)
            return outs
        return [Out('brk', UNIT, st, e.get('target'))]

    def ev_Continue(self, e, st):
        return [Out('cont', UNIT, st, e.get('target'))]

    def ev_Ret(self, e, st):
        if e.get('e') is not None:
            outs = []
            for o in self.ev(e['e'], st):
                outs.append(Out('ret', o.val, o.st) if o.kind == 'val' else o)
            return outs
        return [Out('ret', UNIT, st)]

    def ev_Closure(self, e, st):
        return [Out('val', ('closure', e.get('def')), st)]

    def ev_Try(self, e, st):
        outs = []
        tgt = e.get('ret_target') if self.local_try else None
        for o in self.ev(e['e'], st):
            if o.kind != 'val':
                outs.append(o); continue
            v = o.val
            if tgt is not None:
                # (local_try) the `?` of an expanded helper: its failure is the value of the expanded block
                if v[0] == 'ctor' and v[1] in ('Ok', 'Some'):
                    outs.append(Out('val', v[2][0] if v[2] else UNIT, o.st))
                elif (v[0] == 'ctor' and v[1] in ('Err', 'None')) or v[0] == 'tryerr':
                    outs.append(Out('brk', v if v[0] == 'tryerr' else ('tryerr', v), o.st.event(('try-err', v, e)), tgt))
                else:
                    good = 'Some' if (e['e'].get('ty') or '').startswith('core::option::Option') else 'Ok'
                    atom = ('is', v, good)
                    k = o.st.known(atom)
                    if k is not False:
                        outs.append(Out('val', ('variant', v, good, 0), o.st if k else o.st.assume(atom, True)))
                    if k is not True:
                        s = o.st if k is False else o.st.assume(atom, False)
                        outs.append(Out('brk', ('tryerr', v), s.event(('try-err', v, e)), tgt))
                continue
            if self.local_try and v[0] == 'tryerr':
                # the failure an expanded helper handed back, propagated once more: still the same failure
                outs.append(Out('ret', v, o.st.event(('try-err', v[1], e))))
                continue
            if v[0] == 'ctor' and v[1] in ('Ok', 'Some'):
                outs.append(Out('val', v[2][0] if v[2] else UNIT, o.st))
            elif v[0] == 'ctor' and v[1] in ('Err', 'None'):
                outs.append(Out('ret', ('tryerr', v), o.st.event(('try-err', v, e))))
            else:
                good = 'Some' if (e['e'].get('ty') or '').startswith('core::option::Option') else 'Ok'
                atom = ('is', v, good)
                k = o.st.known(atom)
                if k is not False:
                    outs.append(Out('val', ('variant', v, good, 0), o.st if k else o.st.assume(atom, True)))
                if k is not True:
                    s = o.st if k is False else o.st.assume(atom, False)
                    outs.append(Out('ret', ('tryerr', v), s.event(('try-err', v, e))))
        return outs

    def ev_Await(self, e, st):
        outs = []
        for o in self.ev(e['e'], st):
            if o.kind != 'val':
                outs.append(o); continue
            outs.append(Out('val', ('await', o.val), o.st.event(('await', o.val, e))))
        return outs

    def ev_Assign(self, e, st):
        outs = []
        for o in self.ev(e['r'], st):
            if o.kind != 'val':
                outs.append(o); continue
            outs.extend(self.assign(e['l'], o.val, o.st, e))
        return outs

    def ev_AssignOp(self, e, st):
        outs = []
        res, abn = self.seq([e['l'], e['r']], st)
        for (a, b), s in res:
            op = e['op'].replace('Assign', '')
            outs.extend(self.assign(e['l'], self.arith_result(op, bin_term(op, a, b), e['l'].get('ty')), s, e))
        return outs + abn

    def assign(self, lhs, val, st, node):
        if lhs['k'] == 'Unary' and lhs.get('op') == 'Deref':
            inner = hirq.peel_refs(lhs['e'])
            if inner['k'] == 'Path' and inner.get('res') == 'local':
                P = self.ref_place(inner['bind'])
                base = self.env_place(P[1], st) if P is not None and P[0] == 'field' else None
                if base is not None:
                    # `*r = v` where r is a `&mut` local bound once to a place expression (`let r = &mut self.x;`): a store to that
                    # place, whatever the place holds by now
                    place = ('field', self.place_value(base, st), P[2])
                    return [Out('val', UNIT, st.store(place, val).event(('store', place, val, node)))]
                root = self.env_place(P, st) if P is not None and P[0] == 'param' else None
                flds = self.struct_field_names(lhs.get('ty')) if root is not None else None
                if flds:
                    # `*r = v` where r is a `&mut S` parameter (`*self = Self { .. }`) and S a struct of this workspace with named
                    # fields: the whole referent is replaced, i.e. every field f of it now holds v.f - a store to each field, so that
                    # what a field holds afterwards does not depend on whether it was written alone or with the rest.  Of a struct
                    # expression v.f is the listed expression, else the field of the functional-update base (field_term); of any
                    # other value it is the projection term.  (Exact for all v: a struct value is the tuple of its fields.)
                    s = st
                    for n in flds:
                        place, fv = ('field', root, n), field_term(val, n)
                        s = s.store(place, fv).event(('store', place, fv, node))
                    return [Out('val', UNIT, s)]
                cur = st.env.get(inner['bind'])
                if cur is not None and cur[0] == 'cell':
                    # `*r = v` where r holds a reference to a tracked cell: the cell holds v from here on
                    return [Out('val', UNIT, st.store(cur, val).event(('store', cur, val, node)))]
                if cur is not None and cur[0] == 'field':
                    # `*r = v` where r was bound to a place (`let (a, b) = &mut *guard`): a store through the reference
                    s = st.store(cur, val).event(('store', cur, val, node))
                    return [Out('val', UNIT, s)]
        lhs = hirq.peel_refs(lhs)
        if lhs['k'] == 'Path' and lhs.get('res') == 'local':
            s = st.set(lhs['bind'], val).event(('assign-local', lhs['bind'], val, node))
            return [Out('val', UNIT, s)]
        if lhs['k'] == 'Field':
            outs = []
            for o in self.ev(lhs['e'], st):
                if o.kind != 'val':
                    outs.append(o); continue
                place = ('field', o.val, lhs['name'])
                s = o.st.store(place, val).event(('store', place, val, node))
                outs.append(Out('val', UNIT, s))
            return outs
        if self.places and lhs['k'] == 'Index' and hirq.strip_refs(lhs['e'].get('ty') or '').startswith('alloc::vec::Vec<'):
            tgt = self.vec_target(lhs['e'])
            if tgt is not None:
                c = self.vec_read(tgt, st)          # v[i] = x: some element is replaced, which one is not modelled
                return [Out('val', UNIT, self.vec_write(tgt, ('mutated', c, 'index-assign', node.get('id')), st, node).event(('store-unknown', 'Index', val, node)))]
        return [Out('val', UNIT, st.event(('store-unknown', lhs.get('k'), val, node)))]

    def ev_Call(self, e, st):
        f = e['f']
        if f['k'] == 'Path' and f.get('defkind', '').startswith('Ctor'):
            res, abn = self.seq(e['args'], st)
            v = hirq.short_def(f.get('ctor_of') or f.get('def'))
            return [Out('val', ('ctor', v, tuple(vals)), s) for vals, s in res] + abn
        cal = callee_of(e)
        if cal == 'lber::write::encode_into' and len(e['args']) == 2:
            buf = hirq.peel_refs(e['args'][0])
            if buf['k'] == 'Path' and buf.get('res') == 'local':
                outs = []
                for o in self.ev(e['args'][1], st):
                    if o.kind != 'val':
                        outs.append(o); continue
                    s2 = o.st.set(buf['bind'], ('encoded', o.val)).event(('call', cal, (('local', buf['bind']), o.val), e))
                    outs.append(Out('val', ('ctor', 'Ok', (UNIT,)), s2))
                return outs
        if cal in ('core::mem::take', 'core::mem::replace') and e['args']:
            # mem::take(&mut x.f) / mem::replace(&mut x.f, None) on an Option field are Option::take by another name
            r = self.mem_take(cal, e, st)
            if r is not None:
                return r
        if cal is None:
            # indirect call through a value
            res, abn = self.seq([f] + e['args'], st)
            outs = []
            for vals, s in res:
                outs.extend(self.apply(vals[0], vals[1:], e, s))
            return outs + abn
        res, abn = self.seq(e['args'], st)
        outs = []
        for vals, s in res:
            outs.extend(self.call(cal, vals, e, s))
        return outs + abn

    TAKE = 'core::option::Option::<T>::take'

    def referent_local(self, b, depth=0):
        """The local a `&mut T` local stands for: a reference bound once, by `let r = &mut x` or by handing such a reference on
        (`let s = r`, `&mut *r`, a parameter of an expanded helper), names x for as long as it lives - the borrow checker
        guarantees nothing else touches x meanwhile -, so what is done through it is done to x.  Any other local is its own referent."""
        d = self.body.defs.get(b)
        if depth > 20 or d is None or d['kind'] != 'let' or d['proj'] or d['src'] is None or any(a['l']['k'] == 'Path' for a in self.body.assigns.get(b, ())) \
                or not (d['pat'].get('ty') or '').startswith('&mut '):
            return b
        src = d['src']
        inner = hirq.peel_refs(src)
        if inner['k'] != 'Path' or inner.get('res') != 'local':
            return b
        if src['k'] == 'AddrOf' or (inner.get('ty') or '').startswith('&mut '):
            return self.referent_local(inner['bind'], depth + 1)
        return b

    def mem_take(self, cal, e, st):
        place_e = hirq.peel_refs(e['args'][0])
        ty = hirq.strip_refs(e['args'][0].get('ty') or '')
        if place_e['k'] == 'Path' and place_e.get('res') == 'local' and place_e['bind'] in st.env:
            # mem::take(&mut local) / mem::replace(&mut local, v): the local holds the default (resp. v) from here on
            b = self.referent_local(place_e['bind'])
            if b not in st.env:
                b = place_e['bind']
            old = st.env[b]
            is_opt = ty.startswith('core::option::Option<')
            if cal == 'core::mem::take':
                nv = ('ctor', 'None', ()) if is_opt else ('default', ty)
                s2 = st.set(b, nv).event(('call', self.TAKE if is_opt else cal, (old,), e))
                return [Out('val', old, s2)]
            outs = []
            for o2 in self.ev(e['args'][1], st):
                if o2.kind != 'val':
                    outs.append(o2); continue
                outs.append(Out('val', old, o2.st.set(b, o2.val).event(('call', cal, (old, o2.val), e))))
            return outs
        if place_e['k'] != 'Field':
            return None
        outs = []
        for o in self.ev(place_e['e'], st):
            if o.kind != 'val':
                outs.append(o); continue
            place = ('field', o.val, place_e['name'])
            old = self.read_field(o.val, place_e['name'], o.st)
            news = [(('ctor', 'None', ()) if ty.startswith('core::option::Option<') else ('default', ty), o.st)]
            abn = []
            if cal == 'core::mem::replace':
                news = []
                for o2 in self.ev(e['args'][1], o.st):
                    if o2.kind == 'val':
                        news.append((o2.val, o2.st))
                    else:
                        abn.append(o2)
            outs.extend(abn)
            for nv, s1 in news:
                if nv == ('ctor', 'None', ()) and ty.startswith('core::option::Option<'):
                    s2 = s1.store(place, nv).event(('call', self.TAKE, (old,), e))
                    if old[0] == 'ctor' and old[1] in ('Some', 'None'):
                        outs.append(Out('val', old, s2))
                    else:
                        outs.append(Out('val', ('call', self.TAKE, (old,), e.get('id')), s2))
                else:
                    # mem::replace(&mut place, v) = { let old = read(place); write(place, v); old } for every place and v: the call is
                    # recorded as before, and the write it amounts to as the same 'store' event an assignment `place = v` leaves
                    s2 = s1.store(place, nv).event(('call', cal, (old, nv), e)).event(('store', place, nv, e))
                    outs.append(Out('val', old, s2))
        return outs

    # ------------------------------------------------------------------ Option methods that write through `&mut self`
    # One model per method, each std's definition (core::option) read as an update of the place the method is called on; `old` is what
    # the place holds before the call.  Where the definition depends on whether `old` is Some and that is not known, the path forks
    # on ('is', old, 'Some'), so the place afterwards holds what std says for every prior value:
    #   replace(v)              = mem::replace(self, Some(v)):        place := Some(v), returns old
    #   insert(v)               = { *self = Some(v); payload }:       place := Some(v), returns (a `&mut` to) v
    #   get_or_insert(v)        = { if let None = self { *self = Some(v) }; payload }:  old Some(x): place unchanged, returns x -
    #                             old None: place := Some(v), returns v   (v is the caller's argument: evaluated in both cases)
    #   get_or_insert_with(f)   the same with v = f(), f called only when old is None
    #   get_or_insert_default() the same with v = T::default()
    #   take()                  = mem::replace(self, None):           place := None, returns old
    #   take_if(p)              = if self.as_mut().map_or(false, p) { self.take() } else { None }:  old Some(x) and p(&mut x):
    #                             place := None, returns old - otherwise place unchanged, returns None
    # A write is recorded exactly as the assignment `place = value` would be (a 'store' event for a field, 'assign-local' for a
    # local); a case that leaves the place alone records nothing but the test in the path condition.  (`*place = Some(v)` is the
    # assignment itself, mem::replace(&mut place, Some(v)) is modelled in mem_take.)
    OPTION = 'core::option::Option::<T>::'
    OPTION_WRITERS = ('replace', 'insert', 'get_or_insert', 'get_or_insert_with', 'get_or_insert_default', 'take', 'take_if')

    def env_place(self, P, st):
        """The structural place P (rooted in a parameter, see place_of) as the term that the field expressions of this body evaluate
        to on this path: the parameter is what the environment binds it to (itself, unless the body is evaluated for a caller's
        argument).  None for a place with an Option payload in it."""
        if P[0] == 'param':
            for b, d in self.body.defs.items():
                if d['kind'] == 'param' and not d['proj'] and d['name'] == P[1]:
                    return st.env.get(b, P)
            return P
        if P[0] == 'field':
            b = self.env_place(P[1], st)
            return None if b is None else ('field', b, P[2])
        return None

    def option_targets(self, recv, st):
        """What the receiver expression of a `&mut self` method of Option denotes: ([(target, state)], abnormal outcomes) with target
          ('field', place)   a field of a value the path has evaluated (`self.x`, `conn.ldap.x`, `s.x` for a local struct s), also
                             through a `&mut` local bound once to such a place expression (`let o = &mut self.x; o.replace(v)`);
          ('local', b)       a local that holds the Option by value, also through `&mut` locals that stand for it (referent_local);
        None for anything else (a `&mut Option` parameter, a reference obtained from a call, ...): no model, the call stays opaque."""
        r = hirq.peel_refs(recv)
        if r['k'] == 'Field':
            tg, abn = [], []
            for o in self.ev(r['e'], st):
                if o.kind != 'val':
                    abn.append(o); continue
                tg.append((('field', ('field', o.val, r['name'])), o.st))
            return tg, abn
        if r['k'] == 'Path' and r.get('res') == 'local':
            d = self.body.defs.get(r['bind'])
            ty = ((d or {}).get('pat') or {}).get('ty') or r.get('ty') or ''
            if ty.startswith('&mut '):
                P = self.ref_place(r['bind'])
                if P is not None and P[0] == 'field':
                    base = self.env_place(P[1], st)
                    if base is not None:
                        return [(('field', ('field', self.place_value(base, st), P[2])), st)], []
                    return None
                b = self.referent_local(r['bind'])
                bd = self.body.defs.get(b)
                if b == r['bind'] or bd is None or not (((bd.get('pat') or {}).get('ty')) or '').startswith('core::option::Option<'):
                    return None
                return ([(('local', b), st)], []) if b in st.env else None
            if ty.startswith('core::option::Option<') and d is not None and d['kind'] != 'param' and r['bind'] in st.env:
                return [(('local', r['bind']), st)], []
        return None

    def place_value(self, t, st):
        """the value a place term (a parameter, or a chain of fields below one) holds on this path"""
        if t[0] == 'field':
            return self.read_field(self.place_value(t[1], st), t[2], st)
        return t

    def option_read(self, tg, st):
        return self.read_field(tg[1][1], tg[1][2], st) if tg[0] == 'field' else st.env[tg[1]]

    def option_write(self, tg, val, st, node):
        if tg[0] == 'field':
            return st.store(tg[1], val).event(('store', tg[1], val, node))
        return st.set(tg[1], val).event(('assign-local', tg[1], val, node))

    def option_cases(self, old, st):
        """[(is Some, payload | None, state)]: the cases of an Option value - one when the term or the path condition decides it"""
        if old[0] == 'ctor' and old[1] in ('Some', 'None'):
            return [(old[1] == 'Some', old[2][0] if old[2] else None, st)]
        kt = st.variant_test(old, 'Some', ['Some', 'None'])
        cases = []
        if kt != 'no':
            cases.append((True, ('variant', old, 'Some', 0), st if kt == 'yes' else st.assume(('is', old, 'Some'), True)))
        if kt != 'yes':
            cases.append((False, None, st if kt == 'no' else st.assume(('is', old, 'Some'), False)))
        return cases

    def option_writer(self, cal, e, st):
        """The models listed above; None when the receiver is not a place this interpreter keeps track of."""
        name = cal[len(self.OPTION):]
        nargs = {'replace': 1, 'insert': 1, 'get_or_insert': 1, 'get_or_insert_with': 1, 'get_or_insert_default': 0, 'take': 0, 'take_if': 1}[name]
        if len(e['args']) != nargs:
            return None
        tgs = self.option_targets(e['recv'], st)
        if tgs is None:
            return None
        NONE = ('ctor', 'None', ())
        some = lambda v: ('ctor', 'Some', (v,))
        outs = list(tgs[1])
        for tg, s0 in tgs[0]:
            res, abn = self.seq(e['args'], s0)
            outs.extend(abn)
            for vals, s in res:
                old = self.option_read(tg, s)
                if name == 'replace':
                    outs.append(Out('val', old, self.option_write(tg, some(vals[0]), s, e)))
                elif name == 'insert':
                    outs.append(Out('val', vals[0], self.option_write(tg, some(vals[0]), s, e)))
                elif name == 'take':
                    # (recorded as the interpreter always has recorded a take: the call event, and - when it is not known what the
                    # place held - the term TAKE(old) as the value; see sem.untake / sem.taken_from)
                    s2 = (s.store(tg[1], NONE) if tg[0] == 'field' else s.set(tg[1], NONE)).event(('call', cal, (old,), e))
                    outs.append(Out('val', old if old[0] == 'ctor' and old[1] in ('Some', 'None') else ('call', cal, (old,), e.get('id')), s2))
                elif name == 'take_if':
                    for is_some, inner, s1 in self.option_cases(old, s):
                        if not is_some:
                            outs.append(Out('val', NONE, s1)); continue
                        for o in self.apply(vals[0], [inner], e, s1):
                            if o.kind != 'val':
                                outs.append(o); continue
                            for truth, s3 in self.decide(o.val, o.st):
                                outs.append(Out('val', some(inner), self.option_write(tg, NONE, s3, e)) if truth else Out('val', NONE, s3))
                else:
                    for is_some, inner, s1 in self.option_cases(old, s):
                        if is_some:
                            outs.append(Out('val', inner, s1))
                        elif name == 'get_or_insert':
                            outs.append(Out('val', vals[0], self.option_write(tg, some(vals[0]), s1, e)))
                        elif name == 'get_or_insert_with':
                            for o in self.apply(vals[0], [], e, s1):
                                outs.append(Out('val', o.val, self.option_write(tg, some(o.val), o.st, e)) if o.kind == 'val' else o)
                        else:
                            v = default_term(hirq.strip_refs(e.get('ty') or ''))
                            outs.append(Out('val', v, self.option_write(tg, some(v), s1, e)))
        return outs

    def ev_MethodCall(self, e, st):
        cal = callee_of(e) or ('<method %s>' % e.get('name'))
        if cal.startswith(self.OPTION) and cal[len(self.OPTION):] in self.OPTION_WRITERS:
            r = self.option_writer(cal, e, st)
            if r is not None:
                return r
        if self.exact_seqs and not e['args'] and (cal == 'core::iter::traits::iterator::Iterator::next' or cal.endswith(' as core::iter::traits::iterator::Iterator>::next')):
            # it.next() on a local iterator whose remaining items are all known (the pieces of a split literal, the octets of a literal
            # byte string): Some(first remaining item) and the local holds the rest afterwards; None (and no change) when nothing is
            # left - Iterator::next by definition, for every iterator that yields its items front to back.  A `&mut` alias is followed
            # to the local it names; an alias that cannot be followed has no model (the ordinal cursor below applies).
            recv = hirq.peel_refs(e['recv'])
            if recv['k'] == 'Path' and recv.get('res') == 'local' and recv['bind'] in st.env:
                b0 = recv['bind']
                b = self.referent_local(b0)
                d0 = self.body.defs.get(b0) or {}
                aliased = ((d0.get('pat') or {}).get('ty') or '').startswith('&mut ') and b == b0
                cur = st.env.get(b)
                if not aliased and cur is not None and (cur[0] in ('vec', 'array') or (cur[0] == 'lit' and isinstance(cur[1], bytes))):
                    els = self.literal_elems(cur)
                    if els is not None:
                        if not els:
                            return [Out('val', ('ctor', 'None', ()), st)]
                        rest = ('lit', cur[1][1:]) if cur[0] == 'lit' else ('vec', tuple(els[1:]))
                        return [Out('val', ('ctor', 'Some', (els[0],)), st.set(b, rest).event(('call', cal, (cur,), e)))]
        if cal.endswith('alloc::vec::Vec::<T, A>::push') and len(e['args']) == 1:
            tgt = self.vec_target(e['recv'])
            if tgt is not None:
                outs = []
                for o in self.ev(e['args'][0], st):
                    if o.kind != 'val':
                        outs.append(o); continue
                    old = octets_as_vec(self.vec_read(tgt, o.st))
                    base = old
                    npop = o.st.heap.get(('cursor', old), 0)
                    if npop and old[0] != 'vec':
                        # the vector was read destructively (pop: see the cursor model at the end of builtin_summary) before this
                        # push: what the push lands on is the vector without its last npop elements, not the vector
                        base = ('popped', old, npop)
                    new = ('vec', old[1][:max(len(old[1]) - npop, 0)] + (o.val,)) if old[0] == 'vec' else ('vecpush', base, o.val)
                    s2 = self.vec_write(tgt, new, o.st, e).event(('call', cal, (old, o.val), e))
                    outs.append(Out('val', UNIT, s2))
                return outs
        if self.exact_seqs and cal.endswith('alloc::vec::Vec::<T, A>::pop') and not e['args']:
            # vec.pop() on a local vector all of whose elements are known: the last element leaves the vector (None when empty)
            recv = hirq.peel_refs(e['recv'])
            if recv['k'] == 'Path' and recv.get('res') == 'local':
                old = st.env.get(recv['bind'])
                if old is not None and old[0] == 'vec' and ground(old):
                    if not old[1]:
                        return [Out('val', ('ctor', 'None', ()), st)]
                    s2 = st.set(recv['bind'], ('vec', old[1][:-1])).event(('call', cal, (old,), e))
                    return [Out('val', ('ctor', 'Some', (old[1][-1],)), s2)]
        if self.exact_seqs and not e['args'] and (cal == 'core::iter::traits::iterator::Iterator::next' or cal.endswith(' as core::iter::traits::iterator::Iterator>::next')
                                                  or cal == 'core::iter::traits::double_ended::DoubleEndedIterator::next_back' or cal.endswith(' as core::iter::traits::double_ended::DoubleEndedIterator>::next_back')):
            # it.next() / it.next_back() on a local iterator over a vector / array all of whose elements are known (into_iter / iter /
            # drain / rev of one): the first / last of the elements not yet yielded leaves the iterator, None when there is none left.
            # The local then stands for the iterator over the remaining elements (Iterator::next is only defined on iterators: a
            # local whose value is a listed vector here *is* an iterator over it).
            recv = hirq.peel_refs(e['recv'])
            if recv['k'] == 'Path' and recv.get('res') == 'local':
                old = st.env.get(recv['bind'])
                els = self.listed_elems(old) if old is not None else None
                if els is not None:
                    if not els:
                        return [Out('val', ('ctor', 'None', ()), st)]
                    back = cal.rsplit('::', 1)[-1] == 'next_back'
                    s2 = st.set(recv['bind'], ('vec', tuple(els[:-1] if back else els[1:]))).event(('call', cal, (old,), e))
                    return [Out('val', ('ctor', 'Some', (els[-1] if back else els[0],)), s2)]
        if self.exact_seqs and cal.startswith('core::iter::adapters::peekable::Peekable::<I>::') and cal.rsplit('::', 1)[-1] in ('peek', 'next_if', 'next_if_eq') \
                and len(e['args']) == (0 if cal.endswith('::peek') else 1):
            # Peekable over known elements, held in a local (peekable() itself is transparent: the same elements):
            #   peek()          Some(the next element) without consuming it, None when there is none
            #   next_if(p)      the next element is consumed and returned exactly when there is one and p(&it) holds; otherwise None and
            #                   nothing is consumed;   next_if_eq(x) = next_if(|it| it == x)
            recv = hirq.peel_refs(e['recv'])
            if recv['k'] == 'Path' and recv.get('res') == 'local':
                old = st.env.get(recv['bind'])
                els = self.listed_elems(old) if old is not None else None
                if els is not None:
                    name = cal.rsplit('::', 1)[-1]
                    if name == 'peek':
                        return [Out('val', ('ctor', 'Some', (els[0],)) if els else ('ctor', 'None', ()), st)]
                    res, abn = self.seq(e['args'], st)
                    outs = list(abn)
                    for (a,), s in res:
                        if not els:
                            outs.append(Out('val', ('ctor', 'None', ()), s)); continue
                        tests = self.apply(a, [els[0]], e, s) if name == 'next_if' else [Out('val', bin_term('Eq', els[0], a), s)]
                        for o in tests:
                            if o.kind != 'val':
                                outs.append(o); continue
                            for truth, s3 in self.decide(o.val, o.st):
                                if truth:
                                    outs.append(Out('val', ('ctor', 'Some', (els[0],)), s3.set(recv['bind'], ('vec', tuple(els[1:]))).event(('call', cal, (old, a), e))))
                                else:
                                    outs.append(Out('val', ('ctor', 'None', ()), s3))
                    return outs
        if self.exact_seqs and cal.rsplit('::', 1)[-1] == 'extend' and 'alloc::vec::Vec<' in cal and len(e['args']) == 1:
            # vec.extend(seq) where the local vector and the sequence are both known element by element: the pushes, in order
            recv = hirq.peel_refs(e['recv'])
            if recv['k'] == 'Path' and recv.get('res') == 'local' and st.env.get(recv['bind'], ('unk',))[0] == 'vec':
                outs, handled = [], True
                for o in self.ev(e['args'][0], st):
                    if o.kind != 'val':
                        outs.append(o); continue
                    old = o.st.env.get(recv['bind'], ('unk', 'vec'))
                    if o.val[0] == 'vec' and old[0] == 'vec':
                        outs.append(Out('val', UNIT, o.st.set(recv['bind'], ('vec', old[1] + o.val[1])).event(('call', cal, (old, o.val), e))))
                    else:
                        handled = False
                if handled:
                    return outs
        if self.places and hirq.strip_refs(e['recv'].get('ty') or '').startswith('alloc::vec::Vec<') \
                and (e['recv'].get('adj_ty') or e['recv'].get('ty') or '').startswith('&mut '):
            # any method that borrows a tracked vector mutably (Vec's own, or a slice method reached through DerefMut)
            r = self.vec_mutator(cal, e, st)
            if r is not None:
                return r
        if cal.endswith('alloc::vec::Vec::<T, A>::truncate') and len(e['args']) == 1 and not self.places:
            # vec.truncate(n) with a known n on a local vector whose elements are all listed (known octets, pushed / appended elements):
            # the first n elements remain (std: "keeping the first len elements"; no effect when n >= the length)
            recv = hirq.peel_refs(e['recv'])
            if recv['k'] == 'Path' and recv.get('res') == 'local':
                res, abn = self.seq(e['args'], st)
                outs, handled = list(abn), True
                for (k,), s1 in res:
                    old = s1.env.get(recv['bind'], ('unk', 'vec'))
                    els = listed_elems(old)
                    if els is not None and k[0] == 'lit' and isinstance(k[1], int) and not isinstance(k[1], bool) and k[1] >= 0:
                        outs.append(Out('val', UNIT, s1.set(recv['bind'], ('vec', tuple(els[:k[1]]))).event(('call', cal, (old, k), e))))
                    else:
                        handled = False
                if handled:
                    return outs
        if self.places and not e['args'] and is_iter_step(cal) is not None:
            # it.next() / it.next_back() on a local (or the place behind a `&mut` local) whose value is a sequence known element by
            # element.  An iterator is represented by the items it has yet to yield, front to back - `into_iter()` / `iter()` of a
            # vector are that vector's elements, `rev()` of it their reverse (see builtin_summary) -: next() takes the first of them
            # and next_back() the last (std: DoubleEndedIterator::next_back "removes and returns an element from the end of the
            # iterator"; the two ends never cross), None when none is left; what remains is the iterator's value from here on.
            tgt = self.vec_target(e['recv'])
            c = self.vec_read(tgt, st) if tgt is not None else None
            if c is not None and c[0] == 'vec' and not hirq.strip_refs(e['recv'].get('ty') or '').startswith('alloc::vec::Vec<'):
                front = is_iter_step(cal) == 'next'
                ret = ('ctor', 'None', ()) if not c[1] else ('ctor', 'Some', (c[1][0] if front else c[1][-1],))
                new = ('vec', c[1][1:] if front else c[1][:-1])
                return [Out('val', ret, self.vec_write(tgt, new, st, e).event(('call', cal, (c,), e)))]
        if cal.endswith('alloc::vec::Vec::<T, A>::insert') and len(e['args']) == 2:
            # vec.insert(k, x) on a vector whose elements are known, at a literal position
            recv = hirq.peel_refs(e['recv'])
            if recv['k'] == 'Path' and recv.get('res') == 'local':
                res, abn = self.seq(e['args'], st)
                outs = list(abn)
                handled = True
                for (k, x), s1 in res:
                    old = octets_as_vec(s1.env.get(recv['bind'], ('unk', 'vec')))
                    if old[0] == 'vec' and k[0] == 'lit' and isinstance(k[1], int) and 0 <= k[1] <= len(old[1]):
                        new = ('vec', old[1][:k[1]] + (x,) + old[1][k[1]:])
                        outs.append(Out('val', UNIT, s1.set(recv['bind'], new).event(('call', cal, (old, k, x), e))))
                    else:
                        handled = False
                if handled:
                    return outs
        if cal.rsplit('::', 1)[-1] == 'extend' and 'alloc::vec::Vec<' in cal and len(e['args']) == 1 \
                and hirq.strip_refs(e['args'][0].get('ty') or '').startswith('core::option::Option<'):
            # vec.extend(option): a push when the option is Some, nothing otherwise
            recv = hirq.peel_refs(e['recv'])
            if recv['k'] == 'Path' and recv.get('res') == 'local':
                outs = []
                for o in self.ev(e['args'][0], st):
                    if o.kind != 'val':
                        outs.append(o); continue
                    v = o.val
                    if v[0] == 'ctor' and v[1] in ('Some', 'None'):
                        cases = [(v[1], v[2][0] if v[2] else None, o.st)]
                    else:
                        kt = o.st.variant_test(v, 'Some', ['Some', 'None'])
                        cases = []
                        if kt != 'no':
                            cases.append(('Some', ('variant', v, 'Some', 0), o.st if kt == 'yes' else o.st.assume(('is', v, 'Some'), True)))
                        if kt != 'yes':
                            cases.append(('None', None, o.st if kt == 'no' else o.st.assume(('is', v, 'Some'), False)))
                    for var, inner, s in cases:
                        if var == 'Some':
                            old = s.env.get(recv['bind'], ('unk', 'vec'))
                            new = ('vec', old[1] + (inner,)) if old[0] == 'vec' else ('vecpush', old, inner)
                            outs.append(Out('val', UNIT, s.set(recv['bind'], new).event(('call', 'alloc::vec::Vec::<T, A>::push', (old, inner), e))))
                        else:
                            outs.append(Out('val', UNIT, s))
                return outs
        if cal.rsplit('::', 1)[-1] in ('extend', 'append', 'extend_from_slice') and 'alloc::vec::Vec' in cal and len(e['args']) == 1 \
                and hirq.peel_refs(e['recv'])['k'] == 'Field' and hirq.strip_refs(e['recv'].get('ty') or '').startswith('alloc::vec::Vec<') \
                and hirq.strip_refs(e['args'][0].get('ty') or '').startswith(('alloc::vec::Vec<', '[')):
            # place.extend(list) / place.append(&mut list) / place.extend_from_slice(list) on a Vec stored in a field: afterwards the
            # place holds its old elements followed by the elements of the argument, in order - for every receiver and argument
            # (std: "extends a collection with the contents of an iterator", a Vec / slice iterates its elements front to back;
            # `append` moves all elements of the other vector to the end and leaves the other vector empty).  The call event is
            # recorded exactly as for an unmodelled call (receiver's old value, argument); the heap learns the new value and an
            # ('update', place, new value, node) event says when (not a 'store' event: nothing is assigned to the place).
            recv = hirq.peel_refs(e['recv'])
            res, abn = self.seq([recv['e'], e['args'][0]], st)
            outs = list(abn)
            for (base, arg), s in res:
                place = ('field', base, recv['name'])
                old = self.read_field(base, recv['name'], s)
                for o in self.call(cal, [old, arg], e, s):
                    if o.kind == 'val':
                        s2 = o.st.store(place, ('concat', old, arg)).event(('update', place, ('concat', old, arg), e))
                        src = hirq.peel_refs(e['args'][0])
                        if cal.rsplit('::', 1)[-1] == 'append':
                            empty = ('default', hirq.strip_refs(e['args'][0].get('ty') or ''))
                            if src['k'] == 'Field':
                                for o3 in self.ev(src['e'], s):
                                    if o3.kind == 'val':
                                        s2 = s2.store(('field', o3.val, src['name']), empty)
                            elif src['k'] == 'Path' and src.get('res') == 'local' and src['bind'] in s2.env:
                                s2 = s2.set(src['bind'], empty)
                        outs.append(Out('val', o.val, s2))
                    else:
                        outs.append(o)
            return outs
        if cal.rsplit('::', 1)[-1] in ('extend', 'extend_from_slice') and 'alloc::vec::Vec' in cal and len(e['args']) == 1 and not self.places \
                and hirq.peel_refs(e['recv'])['k'] == 'Path' and hirq.peel_refs(e['recv']).get('res') == 'local' \
                and st.env.get(hirq.peel_refs(e['recv'])['bind'], ('unk',))[0] in TRACKED_VEC \
                and hirq.strip_refs(e['recv'].get('ty') or '').startswith('alloc::vec::Vec<') \
                and hirq.strip_refs(e['args'][0].get('ty') or '').startswith(('alloc::vec::Vec<', '[')):
            # local.extend(list) / local.extend_from_slice(list) on a local vector whose content is tracked: the same model as for a
            # vector stored in a field (above) - afterwards the local holds its old elements followed by the elements of the argument,
            # in order, for every receiver and argument; the call event is recorded exactly as for an unmodelled call
            b = hirq.peel_refs(e['recv'])['bind']
            res, abn = self.seq([e['args'][0]], st)
            outs = list(abn)
            for (arg,), s in res:
                old = s.env.get(b, ('unk', 'vec'))
                for o in self.call(cal, [old, arg], e, s):
                    outs.append(Out('val', o.val, o.st.set(b, ('concat', old, arg))) if o.kind == 'val' else o)
            return outs
        if cal.endswith('::copy_from_slice') and len(e['args']) == 1:
            # dst[a..b].copy_from_slice(src) on a local array whose length is known, from a sequence whose length is known (the elements
            # themselves may be symbolic): the elements a..b-1 are replaced one by one; a length mismatch is the method's panic
            recv = hirq.peel_refs(e['recv'])
            tgt, rng = (recv['e'], recv['idx']) if recv['k'] == 'Index' else (recv, None)
            tgt = hirq.peel_refs(tgt)
            if tgt['k'] == 'Path' and tgt.get('res') == 'local':
                cur = st.env.get(tgt['bind'])
                def elems(v):
                    # the elements of a sequence value of known length: literal bytes, or an array expression (elements may be symbolic)
                    if v is not None and v[0] == 'lit' and isinstance(v[1], bytes):
                        return [('lit', x) for x in v[1]]
                    if v is not None and v[0] == 'array':
                        return list(v[1])
                    return None
                def seqval(es):
                    return ('lit', bytes(x[1] for x in es)) if all(x[0] == 'lit' and isinstance(x[1], int) and 0 <= x[1] < 256 for x in es) else ('array', tuple(es))
                if elems(cur) is not None:
                    res, abn = self.seq(([rng] if rng is not None else []) + [e['args'][0]], st)
                    outs = []
                    for vals, s in res:
                        src = vals[-1]
                        cur_es = elems(cur)
                        lo, hi = 0, len(cur_es)
                        okr = True
                        if rng is not None:
                            b = vals[0]
                            if b[0] == 'struct' and b[1].rsplit('::', 1)[-1] in ('RangeFrom', 'RangeTo', 'Range', 'RangeFull') \
                                    and all(v[0] == 'lit' and isinstance(v[1], int) for n_, v in b[2]):
                                fl = dict(b[2])
                                lo = fl['start'][1] if 'start' in fl else 0
                                hi = fl['end'][1] if 'end' in fl else len(cur_es)
                            else:
                                okr = False
                        src_es = elems(src)
                        if okr and src_es is not None:
                            if not (0 <= lo <= hi <= len(cur_es)) or hi - lo != len(src_es):
                                outs.append(Out('div', UNIT, s.event(('panic', cal, (cur, src), e))))
                            else:
                                outs.append(Out('val', UNIT, s.set(tgt['bind'], seqval(cur_es[:lo] + src_es + cur_es[hi:]))))
                        else:
                            outs.append(Out('val', UNIT, s.set(tgt['bind'], ('unk', 'copy_from_slice')).event(('call', cal, tuple(vals), e))))
                    return outs + abn
        res, abn = self.seq([e['recv']] + e['args'], st)
        outs = []
        # a `&mut self` method without a model above, called on a local whose elements are tracked ('vec'): whatever it does to the
        # vector (clear, truncate, sort, retain ...) is not known, so the local no longer holds the tracked elements afterwards
        recv = hirq.peel_refs(e['recv'])
        forget = None
        if recv['k'] == 'Path' and recv.get('res') == 'local' and str(e['recv'].get('adj_ty') or '').startswith('&mut') \
                and st.env.get(recv['bind'], ('unk',))[0] in TRACKED_VEC and cal.rsplit('::', 1)[-1] not in ('reserve', 'reserve_exact', 'shrink_to_fit'):
            forget = recv['bind']
        for vals, s in res:
            if vals[0][0] == 'cell' and vals[0] in s.heap and hirq.strip_refs(e['recv'].get('ty') or '').startswith('alloc::vec::Vec<'):
                # the receiver is a reference to a tracked cell that holds a vector (`map.entry(k).or_default().push(x)`): a method
                # that borrows it mutably acts on the cell (vec_mutate); any other method reads what the cell holds now
                if str(e['recv'].get('adj_ty') or e['recv'].get('ty') or '').startswith('&mut '):
                    self.vec_mutate(('cell', vals[0]), cal, vals[1:], e, s, outs)
                    continue
                vals = [s.heap[vals[0]]] + list(vals[1:])
            if forget is not None and cal.rsplit('::', 1)[-1] in self.SORTS_BY_KEY and '<impl [T]>::' in cal and len(vals) == 2 \
                    and listed_elems(vals[0]) is not None:
                srt = self.sort_listed(cal.rsplit('::', 1)[-1], listed_elems(vals[0]), vals[1], e, s)
                if srt is not None:
                    outs.append(Out('val', UNIT, srt[1].set(forget, ('vec', srt[0])).event(('call', cal, tuple(vals), e))))
                    continue
            for o in self.call(cal, vals, e, s):
                if forget is not None and o.kind == 'val':
                    after = ('unk', 'vector after %s()' % cal.rsplit('::', 1)[-1])
                    if cal.rsplit('::', 1)[-1] in ('extend', 'extend_from_slice') and 'alloc::vec::Vec' in cal and len(vals) == 2:
                        # vec.extend(seq) with a sequence whose elements are all known (an iterator over literal octets, whatever adaptor
                        # type it has statically): afterwards the vector holds its old elements followed by those, in order (std: Extend
                        # pushes every item the iterator yields; `&u8` items are copied)
                        src = vals[1]
                        while src[0] == 'call' and src[1].rsplit('::', 1)[-1] in ('into_iter', 'iter', 'copied', 'cloned') and len(src[2]) == 1:
                            src = src[2][0]
                        if (src[0] == 'lit' and isinstance(src[1], bytes)) or src[0] in ('vec', 'array'):
                            after = ('concat', s.env.get(forget), src)
                    o = Out('val', o.val, o.st.set(forget, after))
                outs.append(o)
        return outs + abn

    SORTS_BY_KEY = ('sort_by_key', 'sort_by_cached_key', 'sort_unstable_by_key')

    def sort_listed(self, name, xs, fv, node, st):
        """slice.sort_by_key(f) / sort_by_cached_key(f) / sort_unstable_by_key(f) on a sequence whose elements are listed one by one:
        the elements in ascending order of their keys, elements with equal keys in their old order (the first two are stable sorts);
        the unstable sort is the same function exactly when the keys are pairwise different (it leaves the order of equal elements
        open: no model then).  Decided only when f yields, for every element, one literal integer (or one literal bool) without doing
        anything else - Ord on integers / bools is the order of the values.  Returns (elements, state) or None (no model)."""
        if fv[0] not in ('closure', 'fn'):
            return None
        keys, s = [], st
        for x in xs:
            outs = self.apply(fv, [x], node, s)
            if len(outs) != 1 or outs[0].kind != 'val' or len(outs[0].st.ev) != len(s.ev) or outs[0].st.heap != s.heap:
                return None
            k = outs[0].val
            while k[0] == 'cast' and k[1][0] == 'lit' and isinstance(k[1][1], int) and not isinstance(k[1][1], bool) \
                    and INT_RANGE.get(hirq.strip_refs(str(k[2] or ''))) is not None \
                    and INT_RANGE[hirq.strip_refs(str(k[2] or ''))][0] <= k[1][1] <= INT_RANGE[hirq.strip_refs(str(k[2] or ''))][1]:
                k = k[1]            # a cast that keeps the value
            if k[0] != 'lit' or not isinstance(k[1], int):
                return None
            keys.append(k[1])
            s = outs[0].st
        if len({isinstance(k, bool) for k in keys}) > 1:
            return None
        if name == 'sort_unstable_by_key' and len(set(keys)) != len(keys):
            return None
        order = sorted(range(len(xs)), key=lambda i: keys[i])        # (Python's sort is stable)
        return tuple(xs[i] for i in order), s

    VEC_CAPACITY_ONLY = ('reserve', 'reserve_exact', 'shrink_to_fit', 'shrink_to', 'try_reserve', 'try_reserve_exact')

    def vec_mutator(self, cal, e, st):
        """A `&mut self` method on a tracked vector (owned local or place, see vec_target), one model per method:
          pop()        removes and returns the last element: of [..elems, x] it is Some(x) leaving [..elems]; of a vector whose
                       elements are not known it is the k-th read of the ordinal cursor, and the vector is 'popped(base, k+1)'
          truncate(n)  keeps the first n elements: a literal vector is sliced; a vector grown by pushes from x and cut at x.len()
                       (the length read off the very term x) is x again, because x is a prefix of it
          clear()      leaves the empty vector
          retain(p)    keeps exactly the elements p accepts, in order: the predicate is evaluated on one generic element and the
                       result is the element-wise term of Iterator::filter
          reserve / shrink_to_fit ... change the capacity only
        Every other method leaves ('mutated', old, callee, site): a rule that needs the content must fail closed on it."""
        tgt = self.vec_target(e['recv'])
        if tgt is None:
            return None
        res, abn = self.seq(e['args'], st)
        outs = list(abn)
        for vals, s in res:
            self.vec_mutate(tgt, cal, vals, e, s, outs)
        return outs

    def vec_mutate(self, tgt, cal, vals, e, s, outs):
        """vec_mutator for one evaluation of the arguments: the method `cal` applied, with the argument values `vals`, to the tracked
        vector `tgt` stands for - an owned local, a place, or (tgt = ('cell', ref)) the cell a reference term points at; the
        outcomes are appended to `outs`.  Besides the methods listed at vec_mutator:
          push(x)                        the elements followed by x (for a cell reached through a call chain; a push on a local is
                                         modelled in ev_MethodCall)
          extend(seq) / append(&mut o) / extend_from_slice(s)
                                         the elements followed by the elements of the argument, in order (std: Extend pushes every
                                         item the iterator yields; append moves all elements of `o` over and leaves it empty): a
                                         listed vector when both are listed, else ('concat', old, argument)"""
        name = cal.rsplit('::', 1)[-1]
        own = 'alloc::vec::Vec::<T, A>::' in cal
        if True:
            c = self.vec_read(tgt, s)
            site = e.get('id')
            def done(new, ret, s1=s):
                s2 = self.vec_write(tgt, new, s1, e).event(('call', cal, (c,) + tuple(vals), e))
                outs.append(Out('val', ret, s2))
            if own and name == 'push' and len(vals) == 1:
                old = octets_as_vec(c)
                done(('vec', old[1] + (vals[0],)) if old[0] == 'vec' else ('vecpush', c, vals[0]), UNIT)
            elif name in ('extend', 'append', 'extend_from_slice') and 'alloc::vec::Vec' in cal and len(vals) == 1 \
                    and not hirq.strip_refs((e['args'][0].get('ty') if e.get('args') else '') or '').startswith('core::option::Option<') \
                    and (tgt[0] == 'cell' or (listed_elems(c) is not None and (self.listed_elems(vals[0]) or listed_elems(vals[0])) is not None)):
                old = listed_elems(c)
                add = self.listed_elems(vals[0])
                if add is None:
                    add = listed_elems(vals[0])
                s1 = s
                if name == 'append':
                    # (the vector the elements are moved out of is empty afterwards: followed for an owned local; what any other
                    # source expression holds afterwards is not tracked here, and a rule that reads it again sees the unknown)
                    src = hirq.peel_refs(e['args'][0])
                    if src['k'] == 'Path' and src.get('res') == 'local' and src['bind'] in s.env:
                        s1 = s.set(src['bind'], ('vec', ()) if s.env[src['bind']][0] in TRACKED_VEC else ('unk', 'vector after append()'))
                done(('vec', tuple(old) + tuple(add)) if old is not None and add is not None else ('concat', c, vals[0]), UNIT, s1)
            elif own and name == 'pop' and not vals:
                if c[0] == 'vec':
                    done(('vec', c[1][:-1]), ('ctor', 'Some', (c[1][-1],)) if c[1] else ('ctor', 'None', ()))
                elif c[0] == 'vecpush':
                    done(c[1], ('ctor', 'Some', (c[2],)))
                else:
                    b0, k = (c[1], c[2]) if c[0] == 'popped' else (c, s.heap.get(('cursor', c), 0))
                    h = dict(s.heap); h[('cursor', b0)] = k + 1
                    done(('popped', b0, k + 1), ('nth', b0, 'pop', k), St(s.env, h, s.ev, s.pc, s.ctr))
            elif own and name == 'truncate' and len(vals) == 1:
                done(vec_truncate(c, vals[0]), UNIT)
            elif own and name == 'clear' and not vals:
                done(('vec', ()), UNIT)
            elif own and name in self.VEC_CAPACITY_ONLY:
                outs.append(Out('val', ('call', cal, (c,) + tuple(vals), site), s.event(('call', cal, (c,) + tuple(vals), e))))
            elif c[0] == 'vec' and self.listed_vec_method(cal, name, own, c, vals, e, s, done, outs):
                pass
            elif own and name == 'retain' and len(vals) == 1 and vals[0][0] in ('closure', 'fn'):
                el, s1 = s.fresh('elem')
                el = ('elem', c, el[2])
                for o in self.apply_generic(vals[0], [el], e, s1):
                    if o.kind != 'val':
                        outs.append(o); continue
                    for truth, s3 in self.decide(o.val, o.st):
                        done(('many', c, el, el if truth else ('skip',)), UNIT, s3)
            else:
                done(('mutated', c, cal, site), ('call', cal, (c,) + tuple(vals), site))

    def listed_vec_method(self, cal, name, own, c, vals, e, s, done, outs):
        """Positional `&mut self` methods of Vec / of the slice behind it on a vector whose elements are all listed (c = ('vec', elems);
        the elements themselves may be symbolic), at literal positions - each is std's definition applied to the list, for every
        list and every position (the documented panics included):
          insert(k, x)     [..k] x [k..];  panics if k > len
          remove(k)        returns element k, leaves [..k] [k+1..];  panics if k >= len
          swap_remove(k)   returns element k, its place is taken by the last element, which leaves the end;  panics if k >= len
          split_off(k)     returns [k..] as a new vector, leaves [..k];  panics if k > len
          drain(range)     returns (an iterator over) the elements of the range in order and leaves the rest - whether or not the
                           iterator is consumed: dropping a Drain removes what it has not yielded;  panics if start > end or end > len
          reverse()        the elements in the opposite order;   swap(i, j)  elements i and j exchanged, panics if either is >= len
        Returns False for anything else (the caller records the vector as mutated in an unknown way)."""
        xs = c[1]
        n = len(xs)
        def pos(v):
            return v[1] if v[0] == 'lit' and isinstance(v[1], int) and not isinstance(v[1], bool) and v[1] >= 0 else None
        def panic():
            outs.append(Out('div', UNIT, s.event(('panic', cal, (c,) + tuple(vals), e))))
            return True
        if own and name == 'insert' and len(vals) == 2 and pos(vals[0]) is not None:
            k = pos(vals[0])
            if k > n:
                return panic()
            done(('vec', xs[:k] + (vals[1],) + xs[k:]), UNIT)
            return True
        if own and name in ('remove', 'swap_remove') and len(vals) == 1 and pos(vals[0]) is not None:
            k = pos(vals[0])
            if k >= n:
                return panic()
            done(('vec', xs[:k] + xs[k + 1:]) if name == 'remove' or k == n - 1 else ('vec', xs[:k] + (xs[-1],) + xs[k + 1:-1]), xs[k])
            return True
        if own and name == 'split_off' and len(vals) == 1 and pos(vals[0]) is not None:
            k = pos(vals[0])
            if k > n:
                return panic()
            done(('vec', xs[:k]), ('vec', xs[k:]))
            return True
        if own and name == 'drain' and len(vals) == 1:
            r = literal_index_range(vals[0], n)
            if r is not None:
                lo, hi = r
                if lo > hi or hi > n:
                    return panic()
                done(('vec', xs[:lo] + xs[hi:]), ('vec', xs[lo:hi]))
                return True
        if not own and name in self.SORTS_BY_KEY and '<impl [T]>::' in cal and len(vals) == 1:
            srt = self.sort_listed(name, list(xs), vals[0], e, s)
            if srt is not None:
                done(('vec', srt[0]), UNIT, srt[1])
                return True
        if not own and cal == 'core::slice::<impl [T]>::reverse' and not vals:
            done(('vec', tuple(reversed(xs))), UNIT)
            return True
        if not own and cal in ('alloc::slice::<impl [T]>::sort_by_key', 'alloc::slice::<impl [T]>::sort_by_cached_key') and len(vals) == 1 and vals[0][0] in ('closure', 'fn'):
            # sort_by_key(f) / sort_by_cached_key(f): the elements in ascending order of their keys f(&x), elements with equal keys in
            # their original order (std: "This sort is stable (i.e., does not reorder equal elements)").  Modelled when f yields one
            # known key for every element and all keys are of one kind that std and this comparison order alike: bool (false < true),
            # integers, strings / octet strings (lexicographic by octet; UTF-8 keeps code point order)
            # (how often f is called per element is not specified for sort_by_key: only a key function that does nothing but compute
            # its answer - no call event, no store - is modelled)
            keys, s1 = [], s
            for x in xs:
                ko = self.apply(vals[0], [x], e, s1)
                if len(ko) != 1 or ko[0].kind != 'val' or ko[0].val[0] != 'lit' or ko[0].st.ev != s1.ev or ko[0].st.heap != s1.heap:
                    return False
                k, s1 = ko[0].val[1], ko[0].st
                keys.append(k.encode('utf-8') if isinstance(k, str) else k)
            kinds = {bool if isinstance(k, bool) else int if isinstance(k, int) else bytes if isinstance(k, bytes) else None for k in keys}
            if None in kinds or len(kinds) > 1:
                return False
            order = sorted(range(n), key=lambda i: keys[i])          # (sorted() is stable as well)
            done(('vec', tuple(xs[i] for i in order)), UNIT, s1)
            return True
        if not own and cal == 'core::slice::<impl [T]>::swap' and len(vals) == 2 and pos(vals[0]) is not None and pos(vals[1]) is not None:
            i, j = pos(vals[0]), pos(vals[1])
            if i >= n or j >= n:
                return panic()
            ys = list(xs); ys[i], ys[j] = ys[j], ys[i]
            done(('vec', tuple(ys)), UNIT)
            return True
        return False

    def apply(self, fv, args, node, st):
        if fv[0] == 'fn':
            return self.call(fv[1], args, node, st)
        if fv[0] == 'closure':
            return self.apply_closure(fv, args, st, node)
        # the application of a function value that is neither a named function nor a closure of this body (e.g. the parser a nom
        # combinator returns): a rule may supply what it yields at this site
        for sm in self.summaries:
            r = sm(self, '<indirect>', [fv] + list(args), node, st)
            if r is not None:
                return r
        return [Out('val', ('call', '<indirect>', (fv,) + tuple(args), node.get('id')), st.event(('call', '<indirect>', (fv,) + tuple(args), node)))]

    def closure_node(self, fv):
        for n in self.body.nodes:
            if n['k'] == 'Closure' and n.get('def') == fv[1]:
                return n
        return None

    def apply_generic(self, fv, args, node, st):
        """The closure of an iterator adaptor applied to a generic element: state it captures and assigns is loop-carried."""
        cn = self.closure_node(fv) if fv[0] == 'closure' else None
        outs = []
        runner = lambda s: [o.st for o in self.apply(fv, args, node, s) if o.kind == 'val']
        for s in (self.carried_states(cn, st, runner) if cn is not None else [st]):
            outs.extend(self.apply(fv, args, node, s))
        return outs

    def apply_closure(self, fv, args, st, node):
        cn = self.closure_node(fv)
        if cn is None:
            return [Out('val', ('call', fv[1], tuple(args), node.get('id')), st)]
        states = [st]
        for p, a in zip(cn['params'], args):
            nxt = []
            for s in states:
                for kind, s2 in self.match(p, a, s):
                    if kind != 'no':
                        nxt.append(s2)
            states = nxt
        outs = []
        for s in states:
            for o in self.ev(cn['body'], s):
                if o.kind == 'ret':
                    outs.append(Out('val', o.val, o.st))
                else:
                    outs.append(o)
        return outs

    def call(self, cal, args, node, st):
        if node.get('ty') == '!':
            return [Out('div', UNIT, st.event(('panic', cal, tuple(args), node)))]
        for sm in self.summaries:
            r = sm(self, cal, args, node, st)
            if r is not None:
                return r
        r = builtin_summary(self, cal, args, node, st)
        if r is not None:
            return r
        if self.inline(cal):
            r = self.inline_call(cal, args, node, st)
            if r is not None:
                return r
        name = cal.rsplit('::', 1)[-1]
        site = None if name in PURE_OBSERVERS else node.get('id')
        t = ('call', cal, tuple(args), site)
        return [Out('val', t, st.event(('call', cal, tuple(args), node)))]

    # ------------------------------------------------------------------ pattern matching
    def top_atom(self, p, v):
        """The atom whose truth decides whether the top level of pattern p matches term v."""
        k = p.get('k')
        while k in ('PRef', 'PBox', 'PDeref') or (k == 'Bind' and 'sub' in p):
            p = p['pat'] if k != 'Bind' else p['sub']
            k = p.get('k')
        if k in ('PTupleStruct', 'PStruct') and self.is_variant_pat(p):
            return ('is', v, hirq.variant_name(p))
        if k == 'PExpr':
            pe = p['e']
            if pe.get('k') == 'PLit':
                pv = lit(pe.get('v'))
                return ('bin', 'Eq', v, pv)
            if pe.get('defkind', '').startswith('Ctor'):
                return ('is', v, hirq.short_def(pe.get('ctor_of') or pe.get('def') or pe.get('text', '?')))
        if k == 'PRange' and range_bounds(p) is not None:
            return ('matches', v, 'range %s..=%s' % range_bounds(p))      # two range arms over one scrutinee are two different tests
        return ('matches', v, pat_key(p))

    def is_variant_pat(self, p):
        if 'Struct' in (p.get('defkind') or ''):
            return False
        if p.get('res') == 'selfty' and p.get('k') == 'PStruct' and self.is_struct_name(hirq.variant_name(p)):
            return False          # `Self { .. }` in an impl of a struct
        if p.get('defkind', '').startswith('Ctor') or p.get('defkind') == 'Variant':
            return True
        return self.adt_is_enum(p)

    def siblings(self, p):
        var = hirq.variant_name(p)
        if var in ('Some', 'None'):
            return ['Some', 'None']
        if var in ('Ok', 'Err'):
            return ['Ok', 'Err']
        d = p.get('ctor_of') or p.get('def') or ''
        for it in self.facts.items.values():
            if it.get('kind') == 'Enum':
                vs = [x['path'] for x in it['variants']]
                ctor_parents = vs
                if d in vs or any(d.startswith(x) for x in vs):
                    return [hirq.short_def(x) for x in vs]
        return None

    def opaque_test(self, p, v, st):
        """A refutable pattern (part) whose test the interpreter cannot read as a comparison: the test is still recorded - as the opaque
        atom `top_atom` names it by - so that the path condition says that *a* test was made on v here, the same test on the same
        value is decided the same way the second time, and its failure is a case of its own when the enclosing pattern fails."""
        atom = self.top_atom(p, v)
        kn = st.known(atom)
        if kn is not None:
            return [('yes' if kn else 'no', st)]
        return [('maybe', st.assume(atom, True))]

    def match(self, p, v, st):
        """Match pattern p against term v: returns [(kind, state)] with kind yes / no / maybe."""
        k = p.get('k')
        if k == 'Wild' or k == 'Missing':
            return [('yes', st)]
        if k == 'Bind':
            s = st.set(p['bind'], v)
            if 'sub' in p:
                return self.match(p['sub'], v, s)
            return [('yes', s)]
        if k in ('PRef', 'PBox', 'PDeref'):
            return self.match(p['pat'], v, st)
        if k == 'PTuple':
            return self.match_seq(p['pats'], [tuple_elem(v, i) for i in range(len(p['pats']))], st)
        if k == 'PTupleStruct' or k == 'PStruct':
            var = hirq.variant_name(p)
            is_enum_variant = p.get('defkind', '').startswith('Ctor') or p.get('defkind') == 'Variant'
            if v[0] == 'ctor':
                if v[1] != var:
                    return [('no', st)]
                subs = [v[2][i] if i < len(v[2]) else ('unk', 'arity') for i in range(len(p.get('pats', [])))]
                return self.match_seq(p.get('pats', []), subs, st)
            if v[0] == 'struct' and k == 'PStruct':
                fl = dict(v[2])
                r = self.match_seq([f['pat'] for f in p['fields']],
                                   [fl.get(f['name'], field_term(v, f['name'])) for f in p['fields']], st)
                return r
            # symbolic scrutinee
            is_var = self.is_variant_pat(p)
            kt = 'yes'
            if is_var:
                kt = st.variant_test(v, var, self.siblings(p))
                if kt == 'no':
                    return [('no', st)]
                if kt == 'maybe':
                    st = st.assume(('is', v, var), True)
                elif kt == 'yes' and not any(a == ('is', v, var) and t for a, t in st.pc) and var not in COMPLEMENT:
                    # known by exclusion of every sibling variant: say so in the path condition, so that a rule which asks "is this
                    # the X path?" gets the same answer whether the code tested for X or ruled out everything else first
                    st = st.assume(('is', v, var), True)
            if k == 'PTupleStruct':
                if 'Struct' in (p.get('defkind') or '') and not is_var:
                    # destructuring a tuple struct is the same as reading its numbered fields
                    subs = [self.read_field(v, str(i), st) for i in range(len(p['pats']))]
                else:
                    subs = [('variant', v, var, i) for i in range(len(p['pats']))]
                r = self.match_seq(p['pats'], subs, st)
            else:
                subs = [self.read_field(v, f['name'], st) if not is_var else ('vfield', v, var, f['name']) for f in p['fields']]
                r = self.match_seq([f['pat'] for f in p['fields']], subs, st)
            if kt == 'yes':
                return r
            return [('maybe' if kind == 'yes' else kind, s) for kind, s in r]
        if k == 'PExpr':
            pe = p['e']
            if pe.get('k') == 'PLit':
                pv = lit(pe.get('v'))
                if pe.get('neg') and isinstance(pv[1], int):
                    pv = ('lit', -pv[1])
                if v[0] == 'lit':
                    return [('yes' if v == pv else 'no', st)]
                kn = self.domain.eq(v, pv) if self.domain is not None else None
                if kn is None:
                    kn = st.known(('bin', 'Eq', v, pv))
                if kn is not None:
                    return [('yes' if kn else 'no', st)]
                return [('maybe', st.assume(('bin', 'Eq', v, pv), True))]
            var = hirq.short_def(pe.get('ctor_of') or pe.get('def') or pe.get('text', '?'))
            if pe.get('defkind', '').startswith('Ctor') and v[0] != 'ctor':
                kt = st.variant_test(v, var, self.siblings(pe))
                if kt == 'maybe':
                    return [('maybe', st.assume(('is', v, var), True))]
                if kt == 'yes' and not any(a == ('is', v, var) and t for a, t in st.pc) and var not in COMPLEMENT:
                    st = st.assume(('is', v, var), True)      # known by exclusion: made explicit (see above)
                return [(kt, st)]
            if pe.get('defkind', '').startswith('Const') or pe.get('defkind', '').startswith('AssocConst'):
                cv = hirq.const_eval(self.facts, {'k': 'Path', 'res': 'def', 'defkind': pe.get('defkind'), 'def': pe.get('def')})
                if cv is not None and v[0] == 'lit':
                    return [('yes' if v[1] == cv else 'no', st)]
                if cv is not None:
                    # a named constant in pattern position is the literal it evaluates to
                    pv = lit(cv)
                    kn = self.domain.eq(v, pv) if self.domain is not None else None
                    if kn is None:
                        kn = st.known(('bin', 'Eq', v, pv))
                    if kn is not None:
                        return [('yes' if kn else 'no', st)]
                    return [('maybe', st.assume(('bin', 'Eq', v, pv), True))]
                return self.opaque_test(p, v, st)
            if v[0] == 'ctor':
                return [('yes' if v[1] == var else 'no', st)]
            return self.opaque_test(p, v, st)
        if k == 'POr':
            res = []
            for x in p['pats']:
                for kind, s in self.match(x, v, st):
                    if kind == 'yes':
                        return [('yes', s)]
                    if kind == 'maybe':
                        res.append(('maybe', s))
            return res or [('no', st)]
        if k == 'PRange':
            lo, hi = p.get('lo'), p.get('hi')
            if v[0] == 'lit' and isinstance(v[1], int) and not isinstance(v[1], bool) and all(b is None or (b.get('k') == 'PLit' and isinstance(b.get('v'), int) and not b.get('neg')) for b in (lo, hi)):
                # a literal against a range of literals is decided exactly
                ok = (lo is None or lo['v'] <= v[1]) and (hi is None or v[1] < hi['v'] + (1 if 'Included' in (p.get('end') or '') else 0))
                return [('yes' if ok else 'no', st)]
            if v[0] == 'lit' and isinstance(v[1], int) and not isinstance(v[1], bool) and range_bounds(p) is not None:
                # (the same with a negative literal as a bound)
                lo_v, hi_v = range_bounds(p)
                return [('yes' if (lo_v is None or lo_v <= v[1]) and (hi_v is None or v[1] <= hi_v) else 'no', st)]
            if ordinal(v) is not None and ordinal(v)[0] == 'char' and all(b is None or (b.get('k') == 'PLit' and isinstance(b.get('v'), str) and len(b['v']) == 1) for b in (lo, hi)):
                # a character against a range of character literals: `char` is ordered by code point
                n = ordinal(v)[1]
                ok = (lo is None or ord(lo['v']) <= n) and (hi is None or n < ord(hi['v']) + (1 if 'Included' in (p.get('end') or '') else 0))
                return [('yes' if ok else 'no', st)]
            b = range_bounds(p)
            if b is not None:
                # a symbolic integer against a range of literals is the comparison(s) it amounts to; a bound that is the type's own
                # (`0..=127` for an unsigned scrutinee) is no test at all.  One remaining bound: that comparison is the atom (so the arm
                # and an `if` with the same test are the same path condition); two: one atom that names both bounds.
                lo_v, hi_v = b
                rng = INT_RANGE.get(hirq.strip_refs(p.get('ty') or ''))
                if rng is not None and lo_v is not None and lo_v <= rng[0]:
                    lo_v = None
                if rng is not None and hi_v is not None and hi_v >= rng[1]:
                    hi_v = None
                if lo_v is None and hi_v is None:
                    return [('yes', st)]
                if lo_v is None or hi_v is None:
                    atom = ('bin', 'Le', v, ('lit', hi_v)) if lo_v is None else ('bin', 'Ge', v, ('lit', lo_v))
                    kn = st.known(atom)
                    if kn is not None:
                        return [('yes' if kn else 'no', st)]
                    return [('maybe', st.assume(atom, True))]
            return self.opaque_test(p, v, st)
        if k == 'PGuard':
            return [(kind2, s2) if kind == 'yes' else (kind, s) for kind, s in self.match(p['pat'], v, st)
                    for kind2, s2 in (self.opaque_test(p, v, s) if kind == 'yes' else [(kind, s)])]
        if k == 'PSlice':
            return self.match_slice(p, v, st)
        return self.opaque_test(p, v, st)

    # ------------------------------------------------------------------ slice patterns
    # `[p0, .., pk]` matches a sequence of exactly k+1 elements, element i against p_i; `[p0, .., pk, mid @ .., q0, .., qm]` matches a
    # sequence of at least k+m+2 elements: the first k+1 against the p_i, the last m+1 against the q_j, `mid` is bound to what lies
    # between (Rust reference, slice patterns).  Nothing else is tested: a length mismatch is "no match", never a panic.
    def slice_elem(self, v, i, from_end=False):
        """Element i of the sequence value v counted from its front (from its back: i = 0 is the last) - v is known to have it."""
        if self.domain is not None and hasattr(self.domain, 'elem'):
            r = self.domain.elem(v, i, from_end)
            if r is not None:
                return r
        if v[0] == 'subslice' and not from_end:
            return self.slice_elem(v[1], v[2] + i)
        if v[0] == 'subslice':
            return self.slice_elem(v[1], v[3] + i, True)
        return ('index', v, ('lit', i)) if not from_end else ('index', v, bin_term('Sub', seq_len_term(v), ('lit', i + 1)))

    def match_slice(self, p, v, st):
        before, mid, after = p.get('before') or [], p.get('mid'), p.get('after') or []
        nb, na = len(before), len(after)
        es = seq_elems(v, self.exact_seqs)
        if es is not None:
            # every element is known (literal octets, an array expression): the length decides, the elements are bound by position
            elems, mk = es
            n = len(elems)
            if (mid is None and n != nb + na) or n < nb + na:
                return [('no', st)]
            pats, vals = list(before), list(elems[:nb])
            if mid is not None:
                pats.append(mid); vals.append(mk(elems[nb:n - na]))
            pats += list(after); vals += list(elems[n - na:])
            return self.match_seq(pats, vals, st)
        need = nb + na
        L = seq_len_term(v)
        atom = ('bin', 'Ge', L, ('lit', need)) if mid is not None else ('bin', 'Eq', L, ('lit', need))
        kn = True if (mid is not None and need == 0) else length_decides(st.pc, v, atom)
        if kn is False:
            return [('no', st)]
        s = st if kn else st.assume(atom, True)
        pats = list(before) + ([mid] if mid is not None else []) + list(after)
        vals = [self.slice_elem(v, i) for i in range(nb)] + ([subslice_term(v, nb, na)] if mid is not None else []) + [self.slice_elem(v, na - 1 - j, True) for j in range(na)]
        r = self.match_seq(pats, vals, s)
        if kn:
            return r
        return [('maybe' if kind == 'yes' else kind, s2) if kind != 'no' else (kind, st) for kind, s2 in r]

    def adt_is_enum(self, p):
        d = p.get('def', '')
        it = self.facts.items.get(d)
        if it is not None and it.get('kind') == 'Struct':
            return False
        return p.get('defkind') != 'Struct'

    def match_seq(self, pats, vals, st):
        results = [('yes', st)]
        for p, v in zip(pats, vals):
            nxt = []
            for kind, s in results:
                if kind == 'no':
                    nxt.append((kind, s)); continue
                for k2, s2 in self.match(p, v, s):
                    if k2 == 'no':
                        nxt.append(('no', st))
                    elif k2 == 'maybe' or kind == 'maybe':
                        nxt.append(('maybe', s2))
                    else:
                        nxt.append(('yes', s2))
            results = nxt
        # collapse duplicates of 'no'
        out, seen_no = [], False
        for kind, s in results:
            if kind == 'no':
                if not seen_no:
                    out.append((kind, s)); seen_no = True
            else:
                out.append((kind, s))
        return out


# ---------------------------------------------------------------------------------------
# term helpers

def range_bounds(p):
    """(lo, hi) - both inclusive, None for an open end - of a range pattern whose bounds are integer literals; None otherwise"""
    lo, hi = p.get('lo'), p.get('hi')
    vals = []
    for b_ in (lo, hi):
        if b_ is None:
            vals.append(None)
        elif b_.get('k') == 'PLit' and isinstance(b_.get('v'), int) and not isinstance(b_.get('v'), bool):
            vals.append(-b_['v'] if b_.get('neg') else b_['v'])
        else:
            return None
    if vals[1] is not None and 'Included' not in (p.get('end') or ''):
        vals[1] -= 1
    return tuple(vals)

SLICE_LEN = 'core::slice::<impl [T]>::len'

def seq_len_term(v):
    """the number of elements of the sequence value v, as the term `v.len()` evaluates to (a pure observer: no site)"""
    if v[0] == 'subslice':
        return bin_term('Sub', seq_len_term(v[1]), ('lit', v[2] + v[3])) if v[2] + v[3] else seq_len_term(v[1])
    return ('call', SLICE_LEN, (v,), None)

def subslice_term(v, lo, back):
    """v without its first `lo` and its last `back` elements - v is known to have that many"""
    if lo == 0 and back == 0:
        return v
    if v[0] == 'subslice':
        return ('subslice', v[1], v[2] + lo, v[3] + back)
    return ('subslice', v, lo, back)

def seq_elems(v, exact_vecs=False):
    """(elements, constructor of a sequence value of the same kind from a list of elements) of a sequence value all of whose elements
    are listed - literal octets, an array expression, with `exact_vecs` a vector whose elements are all known -, else None"""
    if v[0] == 'lit' and isinstance(v[1], bytes):
        return [('lit', x) for x in v[1]], (lambda es: ('lit', bytes(x[1] for x in es)))
    if v[0] == 'array':
        return list(v[1]), (lambda es: ('array', tuple(es)))
    if exact_vecs and v[0] == 'vec' and ground(v):
        return list(v[1]), (lambda es: ('array', tuple(es)))
    return None

def length_facts(pc, v):
    """What a path condition says about the number n of elements of the sequence value v: (lo, hi, excluded) with lo <= n <= hi
    (hi None: unbounded) and n not in excluded; None when the facts contradict each other.  Read: comparisons of `len(v)` /
    `input_len(v)` with an integer literal, and `is_empty(v)`."""
    lo, hi, excl = 0, None, set()
    def is_len(t):
        return t[0] == 'call' and t[1].rsplit('::', 1)[-1] in ('len', 'input_len') and len(t[2]) == 1 and t[2][0] == v
    def le(k):
        nonlocal hi
        hi = k if hi is None else min(hi, k)
    def ge(k):
        nonlocal lo
        lo = max(lo, k)
    for a, t in pc:
        while a[0] == 'not':
            a, t = a[1], not t
        if a[0] == 'call' and a[1].rsplit('::', 1)[-1] == 'is_empty' and len(a[2]) == 1 and a[2][0] == v:
            a = ('bin', 'Eq', seq_len_term(v), ('lit', 0))
        if a[0] != 'bin' or len(a) != 4 or a[1] not in ('Eq', 'Ne', 'Lt', 'Le', 'Gt', 'Ge'):
            continue
        op, x, y = a[1], a[2], a[3]
        if is_len(y) and x[0] == 'lit':
            x, y, op = y, x, {'Lt': 'Gt', 'Gt': 'Lt', 'Le': 'Ge', 'Ge': 'Le'}.get(op, op)
        if not (is_len(x) and y[0] == 'lit' and isinstance(y[1], int) and not isinstance(y[1], bool)):
            continue
        k = y[1]
        if not t:
            op = {'Eq': 'Ne', 'Ne': 'Eq', 'Lt': 'Ge', 'Ge': 'Lt', 'Le': 'Gt', 'Gt': 'Le'}[op]
        if op == 'Eq':
            ge(k); le(k)
        elif op == 'Ne':
            excl.add(k)
        elif op == 'Lt':
            le(k - 1)
        elif op == 'Le':
            le(k)
        elif op == 'Gt':
            ge(k + 1)
        else:
            ge(k)
    while lo in excl:
        lo += 1
    while hi is not None and hi in excl and hi >= lo:
        hi -= 1
    if hi is not None and hi < lo:
        return None
    return lo, hi, excl

def length_decides(pc, v, atom):
    """True / False when the path condition's facts about the length of v decide `len(v) == k` / `len(v) >= k`, else None"""
    fl = length_facts(pc, v)
    if fl is None:
        return None          # (a contradictory path: nothing is decided here; whoever enumerates it finds it dead)
    lo, hi, excl = fl
    k = atom[3][1]
    if atom[1] == 'Ge':
        return True if lo >= k else False if (hi is not None and hi < k) else None
    if k < lo or (hi is not None and k > hi) or k in excl:
        return False
    return True if hi == lo == k else None

def tuple_elem(v, i):
    if v[0] == 'tuple' and i < len(v[1]):
        return v[1][i]
    return ('field', v, str(i))

def field_term(base, name):
    if base[0] == 'tuple' and name.isdigit() and int(name) < len(base[1]):
        return base[1][int(name)]
    if base[0] == 'struct':
        for n, v in base[2]:
            if n == name:
                return v
        if base[3] is not None:
            return field_term(base[3], name)
    if base[0] == 'ctor' and name.isdigit() and int(name) < len(base[2]):
        return base[2][int(name)]
    return ('field', base, name)

def proj_term(t, pr):
    if pr[0] == 'tup':
        return tuple_elem(t, pr[1])
    if pr[0] == 'variant':
        return ('variant', t, pr[1], pr[2])
    if pr[0] == 'vfield':
        return ('vfield', t, pr[1], pr[2])
    return ('proj', t, pr)

def neg_term(v):
    if v == TRUE:
        return FALSE
    if v == FALSE:
        return TRUE
    if v[0] == 'not':
        return v[1]
    return ('not', v)

def bin_term(op, a, b):
    if a[0] == 'lit' and b[0] == 'lit' and not isinstance(a[1], (bytes, str)) and not isinstance(b[1], (bytes, str)):
        x, y = a[1], b[1]
        try:
            r = {'Add': lambda: x + y, 'Sub': lambda: x - y, 'Mul': lambda: x * y,
                 'Eq': lambda: x == y, 'Ne': lambda: x != y, 'Lt': lambda: x < y, 'Le': lambda: x <= y,
                 'Gt': lambda: x > y, 'Ge': lambda: x >= y, 'BitAnd': lambda: x & y, 'BitOr': lambda: x | y,
                 'BitXor': lambda: x ^ y, 'Shl': lambda: x << y, 'Shr': lambda: x >> y,
                 'Div': lambda: (abs(x) // abs(y)) * (1 if (x >= 0) == (y >= 0) else -1),     # Rust: truncation towards zero
                 'Rem': lambda: x - y * ((abs(x) // abs(y)) * (1 if (x >= 0) == (y >= 0) else -1))}.get(op)
            if r is not None:
                return ('lit', r())
        except Exception:
            pass
    if op in ('Eq', 'Ne') and a[0] == 'lit' and b[0] == 'lit' and isinstance(a[1], (bytes, str)) and isinstance(b[1], (bytes, str)):
        # two string / byte-string literals are equal exactly when their bytes are (`as_bytes` is transparent, so a str literal may
        # meet a byte-string literal: a str is its UTF-8 encoding)
        x, y = (v.encode('utf-8') if isinstance(v, str) else v for v in (a[1], b[1]))
        return ('lit', (x == y) == (op == 'Eq'))
    if op in ('BitOr', 'BitAnd', 'Or', 'And'):
        for x, y in ((a, b), (b, a)):
            if x[0] == 'lit' and isinstance(x[1], bool):
                if op in ('BitOr', 'Or'):
                    return TRUE if x[1] else y
                return y if x[1] else FALSE
    # (x + c1) - c2  ->  x + (c1 - c2);  x + 0 -> x
    if op in ('Add', 'Sub') and b[0] == 'lit' and isinstance(b[1], int) and not isinstance(b[1], bool):
        k = b[1] if op == 'Add' else -b[1]
        base = a
        if a[0] == 'bin' and a[1] == 'Add' and a[3][0] == 'lit' and isinstance(a[3][1], int):
            base, k = a[2], k + a[3][1]
        if k == 0:
            return base
        return ('bin', 'Add', base, ('lit', k))
    if op in ('Eq', 'Ne') and a == b and (a[0] in ('ctor', 'lit', 'const', 'discr') or (a[0] in ('param', 'field', 'variant', 'fresh', 'elem', 'unbound') and not leaves(a, lambda z: z[0] == 'unk'))):
        return TRUE if op == 'Eq' else FALSE          # one and the same value (integer / enum / string places; no float is compared in the analysed code)
    if op in ('Eq', 'Ne') and a[0] == 'discr' and b[0] == 'discr':
        return ('lit', (a[1] == b[1]) == (op == 'Eq'))
    if op in ('Eq', 'Ne') and a[0] == 'ctor' and b[0] == 'ctor' and not a[2] and not b[2]:
        return ('lit', (a[1] == b[1]) == (op == 'Eq'))
    if op in ('Eq', 'Ne') and (a[0] != 'lit' or b[0] != 'lit') and std_ground(a) and std_ground(b):
        # Option / Result / tuple values all of whose parts are literals: std's PartialEq for them is structural - the same variant
        # (the same arity) and equal payloads, the payloads compared as literals are (above)
        def same(x, y):
            if x[0] == 'lit' and y[0] == 'lit':
                r = bin_term('Eq', x, y)
                return r[1] if r[0] == 'lit' and isinstance(r[1], bool) else None
            if x[0] != y[0] or x[0] == 'lit':
                return None if 'lit' in (x[0], y[0]) else False
            xs, ys = (x[2], y[2]) if x[0] == 'ctor' else (x[1], y[1])
            if (x[0] == 'ctor' and x[1] != y[1]) or len(xs) != len(ys):
                return False
            rs = [same(p, q) for p, q in zip(xs, ys)]
            return False if False in rs else None if None in rs else True
        r = same(a, b)
        if r is not None:
            return ('lit', r == (op == 'Eq'))
    if op in ('Eq', 'Ne') and a == b and a[0] == 'call' and a[3] is None and not leaves(a, lambda z: z[0] == 'unk'):
        # the same pure observer (`len`, `is_empty`, ...: site None, see PURE_OBSERVERS) of the same terms is one and the same value -
        # the assumption `St.known` already makes when the same test is met twice on a path
        return TRUE if op == 'Eq' else FALSE
    if op in ('Lt', 'Le', 'Gt', 'Ge') and a == b and a[0] == 'call' and a[3] is None and a[1].rsplit('::', 1)[-1] == 'len' and not leaves(a, lambda z: z[0] == 'unk'):
        return TRUE if op in ('Le', 'Ge') else FALSE      # n < n, n <= n for one and the same length n (an integer)
    if op in ('Eq', 'Ne', 'Lt', 'Le', 'Gt', 'Ge'):
        # Iterator::position(pred) answers Some(i) only with the index i of an element it visited, so i < the number of elements of
        # the sequence it walked: against `len` of that very sequence term the comparison is decided.  (As everywhere in this
        # domain the term of a sequence stands for its value; a rule that leans on this for a mutable local has to see that nothing
        # changes its length in between - C15 V2.value-set-only-permuted does.)
        flip = {'Eq': 'Eq', 'Ne': 'Ne', 'Lt': 'Gt', 'Le': 'Ge', 'Gt': 'Lt', 'Ge': 'Le'}
        for x, y, o2 in ((a, b, op), (b, a, flip[op])):
            if x[0] == 'posidx' and x[1][0] == 'position' and y[0] == 'call' and y[1].rsplit('::', 1)[-1] == 'len' and len(y[2]) == 1 and y[2][0] == x[1][1]:
                return TRUE if o2 in ('Ne', 'Lt', 'Le') else FALSE
    if op == 'Ne':
        return ('not', ('bin', 'Eq', a, b))
    return ('bin', op, a, b)

def ordinal(t):
    """(kind, n) for a literal that std orders as the number n: an integer literal ('int', value); a character literal ('char', code
    point) - `char`'s Ord is the order of code points.  (A character literal and a one-character string literal are the same term
    here; a one-character string orders and compares like its character, so the answers agree.)  None for anything else."""
    if t[0] != 'lit' or isinstance(t[1], bool):
        return None
    if isinstance(t[1], int):
        return ('int', t[1])
    if isinstance(t[1], str) and len(t[1]) == 1:
        return ('char', ord(t[1]))
    return None

RANGE_FIELDS = {'Range': {'start', 'end'}, 'RangeFrom': {'start'}, 'RangeTo': {'end'}, 'RangeToInclusive': {'end'}, 'RangeFull': set()}
RANGE_CONTAINS = re.compile(r'^(?:core::ops::range::(Range|RangeInclusive|RangeFrom|RangeTo|RangeToInclusive)::<Idx>::contains'
                            r'|core::ops::range::RangeBounds::contains|<core::ops::range::Range\w*(?:<.*>)? as core::ops::range::RangeBounds<.*>>::contains)$')

def range_value(t):
    """(kind, start, end) of a value of one of std's range types, as the range expressions desugar: `a..b` Range { start, end },
    `a..` RangeFrom { start }, `..b` RangeTo { end }, `..=b` RangeToInclusive { end }, `..` RangeFull (struct expressions), and
    `a..=b` the call RangeInclusive::new(a, b) (a range that has not been iterated: start, end as given).  A bound the type does
    not have is None.  None for any other term."""
    if t[0] == 'struct' and len(t) >= 3:
        kind = t[1].rsplit('::', 1)[-1]
        if kind in RANGE_FIELDS and t[1] in ('range::' + kind, 'core::ops::range::' + kind) and (len(t) < 4 or t[3] is None):
            fl = dict(t[2])
            if set(fl) == RANGE_FIELDS[kind]:
                return (kind, fl.get('start'), fl.get('end'))
    if t[0] == 'call' and t[1] == 'core::ops::range::RangeInclusive::<Idx>::new' and len(t[2]) == 2:
        return ('RangeInclusive', t[2][0], t[2][1])
    return None

def literal_index_range(rng, n):
    """(lo, hi), hi exclusive: the positions a value of one of std's range types selects in a sequence of n elements (RangeBounds:
    a missing start is 0, a missing end is n, an inclusive end e is e + 1), when its bounds are integer literals; None otherwise.
    Whether the positions exist (lo <= hi <= n) is the caller's business - that is where the operation panics."""
    rv = range_value(rng)
    if rv is None:
        return None
    kind, lo, hi = rv
    for b in (lo, hi):
        if b is not None and not (b[0] == 'lit' and isinstance(b[1], int) and not isinstance(b[1], bool) and b[1] >= 0):
            return None
    return (lo[1] if lo is not None else 0, n if hi is None else hi[1] + (1 if kind in ('RangeInclusive', 'RangeToInclusive') else 0))

def range_as_built(I, node, term, st):
    """The range a method is called on still has the bounds of the expression that built it (a range is also an iterator: `next`
    & co. move its start / end, and the term does not follow that): the receiver is the range expression itself or a local bound
    immutably (not a `&mut`) or a `const` item, and no earlier call on this path received the same range value through a `&mut` (or consumed an
    element of it: the ordinal cursor).  Anything else: not known (no model)."""
    r = node.get('recv') if node.get('k') == 'MethodCall' else (node.get('args') or [None])[0]
    if r is None:
        return False
    ty = str(r.get('adj_ty') or r.get('ty') or '')
    r = hirq.peel_refs(r)
    if r['k'] == 'Path' and r.get('res') == 'local':
        d = I.body.defs.get(r['bind'])
        if d is None or 'Mut' in (d['pat'].get('mode') or 'Mut').split(',')[-1] or str(r.get('ty') or '').startswith('&mut') or ty.startswith('&mut'):
            return False
    elif not (r['k'] in ('Struct', 'Call') or (r['k'] == 'Path' and (r.get('defkind') or '').startswith(('Const', 'AssocConst')))):
        return False            # (a `const` item is its initialiser's value at every mention: a fresh range each time)
    if st.heap.get(('cursor', term), 0):
        return False
    for ev in st.ev:
        if ev[0] == 'call' and len(ev) > 3 and ev[2] and ev[2][0] == term and isinstance(ev[3], dict):
            rn = ev[3].get('recv') if ev[3].get('k') == 'MethodCall' else (ev[3].get('args') or [None])[0]
            if rn is not None and (str(rn.get('adj_ty') or rn.get('ty') or '').startswith('&mut') or rn.get('k') == 'AddrOf' and rn.get('mut')):
                return False
    return True

def is_iter_step(cal):
    """'next' / 'next_back' when the callee is Iterator::next / DoubleEndedIterator::next_back (of whatever iterator type), else None.
    VecDeque::pop_front / pop_back are the same two steps on a deque (std: "removes the first element and returns it, or None if
    the deque is empty" / "removes the last element ..."): a deque is represented by its elements front to back, and
    `VecDeque::from(vec)` keeps the vector's order."""
    if cal.startswith('alloc::collections::vec_deque::VecDeque::<T, A>::pop_'):
        return {'pop_front': 'next', 'pop_back': 'next_back'}.get(cal.rsplit('::', 1)[-1])
    if cal == 'core::iter::traits::iterator::Iterator::next' or cal.endswith(' as core::iter::traits::iterator::Iterator>::next'):
        return 'next'
    if cal == 'core::iter::traits::double_ended::DoubleEndedIterator::next_back' or cal.endswith(' as core::iter::traits::double_ended::DoubleEndedIterator>::next_back'):
        return 'next_back'
    return None

def _cls(*parts):
    s = set()
    for p in parts:
        s |= set(range(p[0], p[1] + 1)) if isinstance(p, tuple) else {p}
    return frozenset(s)

# the ASCII character classes of u8 / char, from the std documentation of each method (code points; nothing above 0x7f is in any)
ASCII_CLASSES = {
    'is_ascii': _cls((0x00, 0x7f)),
    'is_ascii_alphabetic': _cls((0x41, 0x5a), (0x61, 0x7a)),
    'is_ascii_uppercase': _cls((0x41, 0x5a)),
    'is_ascii_lowercase': _cls((0x61, 0x7a)),
    'is_ascii_alphanumeric': _cls((0x30, 0x39), (0x41, 0x5a), (0x61, 0x7a)),
    'is_ascii_digit': _cls((0x30, 0x39)),
    'is_ascii_octdigit': _cls((0x30, 0x37)),
    'is_ascii_hexdigit': _cls((0x30, 0x39), (0x41, 0x46), (0x61, 0x66)),
    'is_ascii_punctuation': _cls((0x21, 0x2f), (0x3a, 0x40), (0x5b, 0x60), (0x7b, 0x7e)),
    'is_ascii_graphic': _cls((0x21, 0x7e)),
    'is_ascii_whitespace': _cls(0x20, 0x09, 0x0a, 0x0c, 0x0d),        # space, tab, line feed, form feed, carriage return (not 0x0b)
    'is_ascii_control': _cls((0x00, 0x1f), 0x7f),
}

def default_value(ty):
    """`<T as Default>::default()` for the types whose default is a known value: an empty Vec, the empty string (String, &str,
    Cow<str>), the empty slice (&[T]: `impl Default for &[T]` is `&[]`); any other type: the opaque ('default', type)"""
    if ty.startswith('alloc::vec::Vec<'):
        return ('vec', ())
    if ty in ('alloc::string::String', '&str') or (ty.startswith('alloc::borrow::Cow<') and ty.endswith(' str>')):
        return ('lit', '')
    if ty == '&[u8]':
        return ('lit', b'')
    return ('default', ty)

def parse_int_radix(text, radix, signed):
    """`<int>::from_str_radix(text, radix)` as std defines it (core::num, `from_str_radix`): an empty string is an error; one leading
    `+` is accepted for every integer type and one leading `-` for the signed ones, and a sign with nothing after it is an error;
    every remaining character must be a digit of the radix (`char::to_digit(radix)`: 0-9, then a-z / A-Z without regard to case,
    value < radix) - no whitespace, no underscore, no second sign; the value is accumulated in the target type (overflow is an
    error: decided by the caller from the returned number).  Returns the number, or None for an error.  Works on the octets of
    the str, as std does (an octet >= 0x80 is no digit)."""
    b = text.encode('utf-8') if isinstance(text, str) else bytes(text)
    if not b:
        return None
    neg = False
    if b[:1] == b'+' or (b[:1] == b'-' and signed):
        neg = b[:1] == b'-'
        b = b[1:]
        if not b:
            return None
    n = 0
    for c in b:
        d = char_digit(c, radix)
        if d is None:
            return None
        n = n * radix + d
    return -n if neg else n

def char_digit(code, radix):
    """`char::to_digit(radix)` of the character with this code point (std: '0'..='9' are 0..9, 'a'..='z' and 'A'..='Z' are 10..35;
    Some(d) exactly when d < radix) - None otherwise.  (radix > 36 panics in std: not asked here.)"""
    if 0x30 <= code <= 0x39:
        d = code - 0x30
    elif 0x61 <= code <= 0x7a:
        d = code - 0x61 + 10
    elif 0x41 <= code <= 0x5a:
        d = code - 0x41 + 10
    else:
        return None
    return d if d < radix else None

class PlacedBytes(bytes):
    """The octets of a byte-string element of a local vector, marked with WHERE that element is: `.place` = (vector token, position,
    static type of a reference to it).  It is `bytes` for everything that reads the VALUE (==, hash, len, indexing, every model that
    looks at octets) - two elements with the same octets at different positions are equal values; only `ptr::eq` reads the mark.
    Anything that builds new octets (slicing, concatenation, bytes(...)) yields plain bytes, i.e. drops the mark."""

def place_elem(x, token, i, refty):
    """the literal byte-string element x as the referent of a reference to position i of the vector `token`; other terms unchanged
    (no mark: `ptr::eq` on them stays undecided)"""
    if x[0] == 'lit' and isinstance(x[1], bytes):
        b = PlacedBytes(x[1])
        b.place = (token, i, refty)
        return ('lit', b)
    return x

def has_place(t):
    if not isinstance(t, tuple):
        return False
    if len(t) == 2 and t[0] == 'lit' and not isinstance(t[1], tuple):
        return isinstance(t[1], PlacedBytes)
    return any(has_place(x) for x in t if isinstance(x, tuple))

def strip_places(t):
    """t with every position mark removed (the values are untouched)"""
    if not isinstance(t, tuple) or not t:
        return t
    if t[0] == 'lit' and len(t) == 2 and not isinstance(t[1], tuple):
        return ('lit', bytes(t[1])) if isinstance(t[1], PlacedBytes) else t
    changed = False
    new = []
    for x in t:
        y = strip_places(x) if isinstance(x, tuple) else x
        changed = changed or y is not x
        new.append(y)
    return tuple(new) if changed else t

def split_top(s):
    """the comma-separated parts of a type list, commas inside <> () [] not counted"""
    parts, depth, cur = [], 0, ''
    for ch in s:
        if ch in '<([':
            depth += 1
        elif ch in '>)]':
            depth -= 1
        if ch == ',' and depth == 0:
            parts.append(cur.strip()); cur = ''
        else:
            cur += ch
    if cur.strip():
        parts.append(cur.strip())
    return parts

def keep_places_of_type(v, ty):
    """v, the value of an expression of static type ty, with the position marks that are valid at that type: on the value itself when
    ty is the reference type the mark was made at, inside `Some(..)` / a tuple when the payload / component type is; every other
    mark is removed (the value is a copy of the element, a reference to a reference, a raw pointer, a container of another kind)."""
    if v[0] == 'lit':
        if isinstance(v[1], PlacedBytes) and v[1].place[2] != ty:
            return ('lit', bytes(v[1]))
        return v
    if v[0] == 'ctor' and v[1] == 'Some' and len(v[2]) == 1 and ty.startswith('core::option::Option<') and ty.endswith('>'):
        x = keep_places_of_type(v[2][0], ty[len('core::option::Option<'):-1])
        return v if x is v[2][0] else ('ctor', 'Some', (x,))
    if v[0] == 'tuple' and ty.startswith('(') and ty.endswith(')'):
        tys = split_top(ty[1:-1])
        if len(tys) == len(v[1]):
            xs = tuple(keep_places_of_type(x, t) for x, t in zip(v[1], tys))
            return v if all(a is b for a, b in zip(xs, v[1])) else ('tuple', xs)
    return strip_places(v)

def ground(t):
    """t is a completely known value: a literal, or a vector / array / tuple / constructor of completely known values"""
    if t[0] == 'lit':
        return True
    if t[0] in ('vec', 'array', 'tuple'):
        return all(ground(x) for x in t[1])
    if t[0] == 'ctor':
        return all(ground(x) for x in t[2])
    if t[0] == 'struct' and len(t) == 4 and t[3] is None:
        # a struct expression without a functional-update base, every field of which is completely known (a literal tree of
        # lber::structure::StructureTag values handed to a decoder, say)
        return all(ground(v) for _n, v in t[2])
    return False

def listed_elems(t):
    """The element terms, in order, of a tracked vector term whose length is known: literal octets, a vector of listed elements, such
    a vector + one pushed element, + the elements of another such sequence (extend / extend_from_slice); None otherwise."""
    if t[0] == 'lit' and isinstance(t[1], bytes):
        return [('lit', x) for x in t[1]]
    if t[0] in ('vec', 'array'):
        return list(t[1])
    if t[0] == 'vecpush':
        a = listed_elems(t[1])
        return a + [t[2]] if a is not None else None
    if t[0] == 'concat':
        a, b = listed_elems(t[1]), listed_elems(t[2])
        return a + b if a is not None and b is not None else None
    return None

def default_term(ty):
    """(one definition: see default_value)"""
    return default_value(ty)

def std_ground(t):
    """t is a completely known value built from literals with Option / Result constructors and tuples only"""
    if t[0] == 'lit':
        return True
    if t[0] == 'ctor':
        return t[1] in ('Some', 'None', 'Ok', 'Err') and all(std_ground(x) for x in t[2])
    return t[0] == 'tuple' and all(std_ground(x) for x in t[1])

def vec_truncate(c, n):
    """The content of vector term c after truncate(n)."""
    if c[0] == 'vec' and n[0] == 'lit' and isinstance(n[1], int) and not isinstance(n[1], bool):
        return ('vec', c[1][:max(n[1], 0)])
    if n[0] == 'call' and n[1].endswith('alloc::vec::Vec::<T, A>::len') and len(n[2]) == 1:
        x = c
        while True:
            if x == n[2][0]:
                return x            # c = x ++ [pushed...]: its first len(x) elements are x
            if x[0] != 'vecpush':
                break
            x = x[1]
    return ('truncated', c, n)

def finite_seq(t, exact=False, listed=False):
    """The element terms of a sequence value whose length is known syntactically: an array expression `[a, b, c]` (iter / into_iter
    are transparent), also after zip / enumerate with literal counters; a vector all of whose elements are known values; with
    `listed` any vector term whose elements are listed one by one (it has exactly those elements, in that order).  None for
    anything else."""
    if t[0] == 'array' and len(t[1]) <= 16:
        return list(t[1])
    if exact and t[0] == 'vec' and len(t[1]) <= 16 and ground(t):
        return list(t[1])
    if listed and t[0] == 'vec' and len(t[1]) <= 16:
        return list(t[1])
    return None

def zip_finite(I, a, b):
    """The pairs of zip(a, b) when one side is an array expression and the other an array expression, a literal range or an
    open literal counter `n..`; None otherwise."""
    def side(t, n):
        fs = finite_seq(t, listed=I.listed_seqs)
        if fs is not None:
            return fs
        if t[0] == 'struct' and t[1].rsplit('::', 1)[-1] == 'RangeFrom' and n is not None:
            s = dict(t[2]).get('start')
            if s is not None and s[0] == 'lit' and isinstance(s[1], int) and not isinstance(s[1], bool):
                return [('lit', s[1] + i) for i in range(n)]
            return None
        return I.literal_elems(t)
    fa, fb = finite_seq(a, listed=I.listed_seqs), finite_seq(b, listed=I.listed_seqs)
    if fa is None and fb is None:
        return None
    xs = side(a, len(fb) if fb is not None else None)
    ys = side(b, len(fa) if fa is not None else None)
    if xs is None or ys is None:
        return None
    return [('tuple', (x, y)) for x, y in zip(xs, ys)]

def known_seq_summary(I, cal, name, args, node, st):
    """Exact models of slice / iterator / Option functions on *completely known* sequences (vectors, arrays, literal byte strings
    and what enumerate / windows make of them).  Each is the std function's definition applied to the known elements; nothing is
    modelled when an element is not known (the generic models / opaque calls apply then)."""
    is_iter = 'iterator::Iterator::' in cal or 'core::iter::traits::iterator::Iterator>::' in cal
    is_slice = cal.startswith('core::slice::<impl [T]>::') or cal.startswith('alloc::vec::Vec::<T, A>::') or cal.startswith('alloc::vec::Vec::<T>::')
    if is_slice and args and args[0][0] in ('vec', 'array') and ground(args[0]):
        xs = args[0][1]
        if name == 'len' and len(args) == 1:
            return [Out('val', ('lit', len(xs)), st)]
        if name == 'is_empty' and len(args) == 1:
            return [Out('val', ('lit', len(xs) == 0), st)]
        if name in ('first', 'last') and len(args) == 1:
            # first() / last(): None for an empty slice, else the first / last element
            return [Out('val', ('ctor', 'Some', (xs[0 if name == 'first' else -1],)) if xs else ('ctor', 'None', ()), st)]
        if name == 'split_last' and len(args) == 1:
            # split_last(): None for an empty slice, else (last element, everything before it)
            return [Out('val', ('ctor', 'Some', (('tuple', (xs[-1], ('vec', xs[:-1]))),)) if xs else ('ctor', 'None', ()), st)]
        if name == 'split_first' and len(args) == 1:
            return [Out('val', ('ctor', 'Some', (('tuple', (xs[0], ('vec', xs[1:]))),)) if xs else ('ctor', 'None', ()), st)]
        if name == 'windows' and len(args) == 2 and args[1][0] == 'lit' and isinstance(args[1][1], int) and args[1][1] > 0:
            # windows(k): every contiguous run of k elements, in order (none when the slice is shorter than k; k == 0 panics)
            k = args[1][1]
            return [Out('val', ('vec', tuple(('vec', xs[i:i + k]) for i in range(max(len(xs) - k + 1, 0)))), st)]
    if is_slice and I.places and len(args) == 1 and args[0][0] == 'vec' and name in ('first', 'last'):
        # first() / last() of a vector whose elements are listed one by one (known by position, whatever they are): None for an
        # empty one, else that element
        xs = args[0][1]
        return [Out('val', ('ctor', 'Some', (xs[0 if name == 'first' else -1],)) if xs else ('ctor', 'None', ()), st)]
    if is_iter and len(args) == 2 and name in ('any', 'all', 'position', 'find') and args[1][0] in ('closure', 'fn') and I.literal_elems(args[0]) is not None:
        # a search over a known sequence: the predicate is applied to the elements in order until it decides (short circuit)
        states, outs = [st], []
        for i, x in enumerate(I.literal_elems(args[0])):
            nxt = []
            for s in states:
                for o in I.apply(args[1], [x], node, s):
                    if o.kind != 'val':
                        outs.append(o); continue
                    for truth, s3 in I.decide(o.val, o.st):
                        if truth == (name != 'all'):
                            hit = {'any': TRUE, 'all': FALSE, 'position': ('ctor', 'Some', (('lit', i),)), 'find': ('ctor', 'Some', (x,))}[name]
                            outs.append(Out('val', hit, s3))
                        else:
                            nxt.append(s3)
            states = nxt
        miss = {'any': FALSE, 'all': TRUE, 'position': ('ctor', 'None', ()), 'find': ('ctor', 'None', ())}[name]
        return outs + [Out('val', miss, s) for s in states]
    if is_iter and name in ('skip', 'take') and len(args) == 2 and args[1][0] == 'lit' and isinstance(args[1][1], int) and not isinstance(args[1][1], bool) \
            and args[1][1] >= 0 and I.listed_elems(args[0]) is not None:
        # skip(n) / take(n) of an iterator over known elements: without / only its first n elements, in order (n larger than the
        # number of elements: nothing / all of them)
        xs = I.listed_elems(args[0])
        return [Out('val', ('vec', tuple(xs[args[1][1]:] if name == 'skip' else xs[:args[1][1]])), st)]
    if is_iter and name == 'last' and len(args) == 1 and I.listed_elems(args[0]) is not None:
        xs = I.listed_elems(args[0])
        return [Out('val', ('ctor', 'Some', (xs[-1],)) if xs else ('ctor', 'None', ()), st)]
    if is_iter and name == 'count' and len(args) == 1 and I.literal_elems(args[0]) is not None:
        return [Out('val', ('lit', len(I.literal_elems(args[0]))), st)]
    if cal.startswith('core::option::Option::<T>::') and name == 'filter' and len(args) == 2 and args[1][0] in ('closure', 'fn') \
            and args[0][0] == 'ctor' and args[0][1] in ('Some', 'None'):
        # Option::filter(p): None stays None; Some(x) stays Some(x) if p(&x), else becomes None
        if args[0][1] == 'None':
            return [Out('val', args[0], st)]
        outs = []
        for o in I.apply(args[1], [args[0][2][0]], node, st):
            if o.kind != 'val':
                outs.append(o); continue
            for truth, s3 in I.decide(o.val, o.st):
                outs.append(Out('val', args[0] if truth else ('ctor', 'None', ()), s3))
        return outs
    if cal.startswith('core::num::<impl ') and name in ('wrapping_sub', 'wrapping_add', 'saturating_sub', 'saturating_add') and len(args) == 2 \
            and all(a[0] == 'lit' and isinstance(a[1], int) and not isinstance(a[1], bool) for a in args):
        # integer arithmetic on literals that wraps around / saturates at the bounds of the type
        rng = INT_RANGE.get(cal[len('core::num::<impl '):].split('>')[0])
        if rng is not None:
            v = args[0][1] - args[1][1] if name.endswith('sub') else args[0][1] + args[1][1]
            if name.startswith('wrapping'):
                v = (v - rng[0]) % (rng[1] - rng[0] + 1) + rng[0]
            else:
                v = min(max(v, rng[0]), rng[1])
            return [Out('val', ('lit', v), st)]
    return None

class NotEvaluable(Exception):
    pass

def eval_term(t, env):
    """Exact value of a term built from literals, the symbolic leaves given in env (term -> int/bool), integer / boolean
    operators and casts.  Used to decide predicates over a small finite domain exhaustively (every byte value)."""
    if t in env:
        return env[t]
    k = t[0]
    if k == 'lit':
        return t[1]
    if k == 'cast':
        v = eval_term(t[1], env)
        rng = INT_RANGE.get(hirq.strip_refs(str(t[2] or '')))
        if rng is not None and isinstance(v, int) and not isinstance(v, bool):
            width = rng[1] - rng[0] + 1
            v = (v - rng[0]) % width + rng[0]
        return v
    if k == 'not':
        return not eval_term(t[1], env)
    if k == 'bitnot':
        return ~eval_term(t[1], env)
    if k == 'neg':
        return -eval_term(t[1], env)
    if k == 'bin':
        a, b = eval_term(t[2], env), eval_term(t[3], env)
        f = {'Add': lambda: a + b, 'Sub': lambda: a - b, 'Mul': lambda: a * b, 'Eq': lambda: a == b, 'Ne': lambda: a != b,
             'Lt': lambda: a < b, 'Le': lambda: a <= b, 'Gt': lambda: a > b, 'Ge': lambda: a >= b, 'BitAnd': lambda: a & b,
             'BitOr': lambda: a | b, 'BitXor': lambda: a ^ b, 'Shl': lambda: a << b, 'Shr': lambda: a >> b,
             'And': lambda: a and b, 'Or': lambda: a or b, 'Rem': lambda: a % b, 'Div': lambda: a // b}.get(t[1])
        if f is None:
            raise NotEvaluable(t[1])
        return f()
    raise NotEvaluable(k)

def pat_key(p):
    from facts import pp_pat
    import re
    return re.sub(r'#[0-9.]+', '', pp_pat(p))

def leaves(t, pred):
    """All sub-terms of t satisfying pred (pre-order)."""
    out = []
    def rec(x):
        if isinstance(x, tuple):
            if x and isinstance(x[0], str) and pred(x):
                out.append(x)
            for y in x:
                rec(y)
    rec(t)
    return out

def fmt(t, depth=0):
    if not isinstance(t, tuple) or not t:
        return repr(t)
    if depth > 8:
        return '...'
    k = t[0]
    f = lambda x: fmt(x, depth + 1)
    if not isinstance(k, str):
        return '[' + ', '.join(f(x) for x in t) + ']'
    if k == 'array':
        return '[' + ', '.join(f(x) for x in t[1]) + ']'
    if k == 'lit':
        return repr(t[1])
    if k == 'param':
        return t[1]
    if k == 'const' or k == 'fn':
        return str(t[1]).split('::')[-1]
    if k == 'ctor':
        return t[1] + ('(' + ', '.join(f(x) for x in t[2]) + ')' if t[2] else '')
    if k == 'tuple':
        return '(' + ', '.join(f(x) for x in t[1]) + ')'
    if k == 'struct':
        return t[1] + '{' + ', '.join('%s: %s' % (n, f(v)) for n, v in t[2]) + (', ..' + f(t[3]) if t[3] is not None else '') + '}'
    if k == 'field':
        return f(t[1]) + '.' + t[2]
    if k == 'call':
        name = t[1].split('::')[-1] if '>::' not in t[1] else t[1].split('>::')[-1]
        return name + '(' + ', '.join(f(x) for x in t[2]) + ')'
    if k == 'cast':
        return f(t[1]) + ' as ' + str(t[2])
    if k == 'bin':
        return '(%s %s %s)' % (f(t[2]), t[1], f(t[3]))
    if k == 'not':
        return '!' + f(t[1])
    if k in ('unwrap', 'tryok', 'await', 'neg'):
        return k + '(' + f(t[1]) + ')'
    if k == 'variant':
        return f(t[1]) + '.' + t[2] + '#' + str(t[3])
    if k == 'vfield':
        return f(t[1]) + '.' + t[2] + '#' + str(t[3])
    if k == 'elem':
        return 'elem(' + f(t[1]) + ')'
    if k == 'closure':
        return 'closure'
    return k + '(' + ', '.join(f(x) if isinstance(x, tuple) else str(x) for x in t[1:]) + ')'


# ---------------------------------------------------------------------------------------
# built-in summaries: Option / Result / transparent wrappers

def builtin_summary(I, cal, args, node, st):
    name = cal.rsplit('::', 1)[-1]
    is_opt = cal.startswith('core::option::Option::<T>::')
    is_res = cal.startswith('core::result::Result::<T, E>::')
    if cal == 'core::ptr::eq' and len(args) == 2 and I.elem_refs and node.get('k') == 'Call' and len(node.get('args') or ()) == 2 \
            and all(a[0] == 'lit' and isinstance(a[1], PlacedBytes) for a in args):
        # ptr::eq(a, b) on two references to elements of ONE local vector (marked by the operations that made them, see
        # Interp.elem_ref_results; both argument expressions have the reference type the marks were made at): the addresses are
        # equal exactly when the positions are - the elements of a Vec<E> lie E-sized apart, and E (a Vec / String / reference:
        # never zero-sized) has a size.  References into different vectors, or anything unmarked: no model (the call stays opaque).
        (ta, ia, ra), (tb, ib, rb) = args[0][1].place, args[1][1].place
        sized = ra.startswith(('&alloc::vec::Vec<', '&alloc::string::String', '&&'))
        if ta == tb and ra == rb and sized and all((x.get('ty') or '') == ra for x in node['args']):
            return [Out('val', ('lit', ia == ib), st)]
    if cal == 'core::mem::discriminant' and len(args) == 1:
        # mem::discriminant(&x): the variant of x and nothing else; of a constructor term it is that constructor's name, of a value
        # whose variant the path condition has fixed it is that variant
        v = args[0]
        if v[0] == 'ctor':
            return [Out('val', ('discr', v[1]), st)]
        for a, t in st.pc:
            if t and a[0] == 'is' and a[1] == v:
                return [Out('val', ('discr', a[2]), st)]
        return [Out('val', ('call', cal, tuple(args), None), st)]
    if cal in ('core::convert::Into::into', '<T as core::convert::Into<U>>::into') and len(args) == 1 and node.get('k') == 'MethodCall' and node.get('inst') == '<T as core::convert::Into<U>>::into':
        # `x.into()` through std's blanket impl (`impl<T, U: From<T>> Into<U> for T { fn into(self) -> U { U::from(self) } }`) is
        # `U::from(x)` for every x: where that From impl is a function of the workspace the call is a call of it - a real
        # conversion with a body of its own, not a transparent wrapper (Tag -> LdapResult decodes a protocolOp).
        target = '<%s as core::convert::From<%s>>::from' % (node.get('ty'), node['recv'].get('ty'))
        if target in I.facts.hir:
            return I.call(target, args, node, st)
    if hirq.is_transparent(cal) and args:
        if name == 'clone' and node.get('k') == 'MethodCall' and hirq.strip_refs(node['recv'].get('ty', '')).startswith('ldap3::') \
                and hirq.strip_refs(node['recv'].get('ty', '')).split('<')[0] in ('ldap3::ldap::Ldap',):
            # a cloned handle is a distinct object: stores to its fields must not alias the original
            return [Out('val', ('call', cal, tuple(args), node.get('id')), st.event(('call', cal, tuple(args), node)))]
        if name in cloneid.CLONING_METHODS and cloneid.call_why(I.facts, cal, node) is not None:
            # `x.clone()` is `x` only for a type whose Clone is a faithful copy; that is decided from the workspace's Clone impls
            # (cloneid): a type with a hand-written Clone that answers something else - or one that contains such a type by value -
            # yields a value of its own, distinct from its receiver
            return [Out('val', ('call', cal, tuple(args), node.get('id')), st.event(('call', cal, tuple(args), node)))]
        return [Out('val', args[0], st)]
    if (is_opt or is_res) and name in (('expect', 'unwrap') if I.combinators else ('expect', 'unwrap', 'unwrap_or_default')) and args:
        v = args[0]
        if v[0] == 'ctor' and v[1] in ('Some', 'Ok'):
            return [Out('val', v[2][0], st)]
        if v[0] == 'ctor' and v[1] in ('None', 'Err') and name == 'unwrap_or_default':
            return [Out('val', default_value(node.get('ty') or ''), st)]       # the Default of the payload type
        if v[0] == 'ctor' and v[1] in ('None', 'Err') and name != 'unwrap_or_default':
            return [Out('div', UNIT, st.event(('panic', cal, tuple(args), node)))]
        good = 'Some' if is_opt else 'Ok'
        kt = st.variant_test(v, good, ['Some', 'None'] if is_opt else ['Ok', 'Err'])
        if kt == 'no' and name != 'unwrap_or_default':
            return [Out('div', UNIT, st.event(('panic', cal, tuple(args), node)))]
        s2 = st if kt == 'yes' else st.event(('may-panic', cal, tuple(args), node)).assume(('is', v, good), True)
        return [Out('val', ('variant', v, good, 0), s2)]
    if (is_opt or is_res) and name in ('is_some', 'is_ok', 'is_none', 'is_err') and args:
        v = args[0]
        pos = name in ('is_some', 'is_ok')
        if v[0] == 'ctor' and v[1] in ('Some', 'Ok'):
            return [Out('val', ('lit', pos), st)]
        if v[0] == 'ctor' and v[1] in ('None', 'Err'):
            return [Out('val', ('lit', not pos), st)]
        atom = ('is', v, 'Some' if is_opt else 'Ok')
        kn = st.known(atom)
        if kn is not None:
            return [Out('val', ('lit', kn == pos), st)]
        return [Out('val', atom if pos else ('not', atom), st)]
    if (is_opt or is_res) and name in ('and_then', 'map') and len(args) == 2 and args[1][0] in ('closure', 'fn'):
        v = args[0]
        good = 'Some' if is_opt else 'Ok'
        if v[0] == 'ctor' and v[1] in ('None', 'Err'):
            return [Out('val', v, st)]
        branches = []
        if v[0] == 'ctor' and v[1] in ('Some', 'Ok'):
            branches.append((v[2][0], st))
            outs = []
        else:
            kt = st.variant_test(v, good, ['Some', 'None'] if is_opt else ['Ok', 'Err'])
            outs = []
            if kt != 'no':
                branches.append((('variant', v, good, 0), st if kt == 'yes' else st.assume(('is', v, good), True)))
            if kt != 'yes':
                outs.append(Out('val', ('ctor', 'None', ()) if is_opt else v, st if kt == 'no' else st.assume(('is', v, good), False)))
        for inner, s in branches:
            for o in I.apply(args[1], [inner], node, s):
                if o.kind == 'val' and name == 'map':
                    outs.append(Out('val', ('ctor', good, (o.val,)), o.st))
                else:
                    outs.append(o)
        return outs
    if I.combinators and is_opt and name == 'filter' and len(args) == 2 and args[1][0] in ('closure', 'fn'):
        # Option::filter(p): Some(x) exactly when the option is Some(x) and p(&x) holds, None otherwise
        v = args[0]
        if v[0] == 'ctor' and v[1] == 'None':
            return [Out('val', v, st)]
        outs, branches = [], []
        if v[0] == 'ctor' and v[1] == 'Some':
            branches.append((v[2][0], st))
        else:
            kt = st.variant_test(v, 'Some', ['Some', 'None'])
            if kt != 'no':
                branches.append((('variant', v, 'Some', 0), st if kt == 'yes' else st.assume(('is', v, 'Some'), True)))
            if kt != 'yes':
                outs.append(Out('val', ('ctor', 'None', ()), st if kt == 'no' else st.assume(('is', v, 'Some'), False)))
        for inner, s in branches:
            for o in I.apply(args[1], [inner], node, s):
                if o.kind != 'val':
                    outs.append(o); continue
                for truth, s3 in I.decide(o.val, o.st):
                    outs.append(Out('val', ('ctor', 'Some', (inner,)) if truth else ('ctor', 'None', ()), s3))
        return outs
    if I.combinators and (is_opt or is_res) and name in ('unwrap_or', 'unwrap_or_else', 'unwrap_or_default', 'ok_or', 'ok_or_else', 'map_or', 'map_or_else') and args:
        good, bad = ('Some', 'None') if is_opt else ('Ok', 'Err')
        v = args[0]
        while v[0] == 'tryerr':          # (the value a failed `?` of an inlined callee handed back IS that Err / None)
            v = v[1]
        if v[0] == 'ctor' and v[1] in (good, bad):
            cases = [(v[1], v[2][0] if v[2] else UNIT, st)]
        else:
            kt = st.variant_test(v, good, [good, bad])
            cases = []
            if kt != 'no':
                cases.append((good, ('variant', v, good, 0), st if kt == 'yes' else st.assume(('is', v, good), True)))
            if kt != 'yes':
                cases.append((bad, ('variant', v, bad, 0) if not is_opt else UNIT, st if kt == 'no' else st.assume(('is', v, good), False)))
        outs = []
        for var, inner, s in cases:
            if name in ('unwrap_or', 'unwrap_or_else', 'unwrap_or_default'):
                if var == good:
                    outs.append(Out('val', inner, s))
                elif name == 'unwrap_or':
                    outs.append(Out('val', args[1], s))
                elif name == 'unwrap_or_else':
                    outs.extend(I.apply(args[1], [] if is_opt else [inner], node, s))
                else:
                    outs.append(Out('val', default_value(node.get('ty') or ''), s))
            elif name in ('ok_or', 'ok_or_else'):
                if var == good:
                    outs.append(Out('val', ('ctor', 'Ok', (inner,)), s))
                elif name == 'ok_or':
                    outs.append(Out('val', ('ctor', 'Err', (args[1],)), s))
                else:
                    for o in I.apply(args[1], [], node, s):
                        outs.append(Out('val', ('ctor', 'Err', (o.val,)), o.st) if o.kind == 'val' else o)
            else:   # map_or(default, f) / map_or_else(default_fn, f)
                if var == good:
                    outs.extend(I.apply(args[2], [inner], node, s))
                elif name == 'map_or':
                    outs.append(Out('val', args[1], s))
                else:
                    outs.extend(I.apply(args[1], [] if is_opt else [inner], node, s))
        return outs
    if I.combinators and cal.startswith('core::bool::<impl bool>::') and name in ('then', 'then_some') and len(args) == 2 \
            and (name == 'then_some' or args[1][0] in ('closure', 'fn')):
        # std: `b.then(f)` returns Some(f()) if b is true and None otherwise (f is not called then); `b.then_some(v)` returns Some(v)
        # if b is true and None otherwise (v was evaluated by the caller in both cases) - for every b, f, v
        outs = []
        for truth, s2 in I.decide(args[0], st):
            if not truth:
                outs.append(Out('val', ('ctor', 'None', ()), s2))
            elif name == 'then_some':
                outs.append(Out('val', ('ctor', 'Some', (args[1],)), s2))
            else:
                for o in I.apply(args[1], [], node, s2):
                    outs.append(Out('val', ('ctor', 'Some', (o.val,)), o.st) if o.kind == 'val' else o)
        return outs
    if I.combinators and name in ('checked_add',) and cal.startswith('core::num::<impl ') and len(args) == 2 and args[1][0] == 'lit':
        ity = cal[len('core::num::<impl '):].split('>')[0]
        rng = INT_RANGE.get(ity)
        if rng is not None and isinstance(args[1][1], int) and args[1][1] > 0:
            x, c = args
            if x[0] == 'lit':
                r = x[1] + c[1]
                return [Out('val', ('ctor', 'Some', (('lit', r),)) if r <= rng[1] else ('ctor', 'None', ()), st)]
            if c[1] == 1:
                outs = []
                for truth, s2 in I.decide(('bin', 'Eq', x, ('lit', rng[1])), st):
                    outs.append(Out('val', ('ctor', 'None', ()) if truth else ('ctor', 'Some', (bin_term('Add', x, c),)), s2))
                return outs
    if I.result_combinators and is_res and name in ('map_err', 'ok', 'err') and args and (name != 'map_err' or (len(args) == 2 and args[1][0] in ('closure', 'fn'))):
        v = args[0]
        while v[0] == 'tryerr':          # (the value a failed `?` of an inlined callee handed back IS that Err)
            v = v[1]
        if v[0] == 'ctor' and v[1] in ('Ok', 'Err'):
            cases = [(v[1], v[2][0] if v[2] else UNIT, st)]
        else:
            kt = st.variant_test(v, 'Ok', ['Ok', 'Err'])
            cases = []
            if kt != 'no':
                cases.append(('Ok', ('variant', v, 'Ok', 0), st if kt == 'yes' else st.assume(('is', v, 'Ok'), True)))
            if kt != 'yes':
                cases.append(('Err', ('variant', v, 'Err', 0), st if kt == 'no' else st.assume(('is', v, 'Ok'), False)))
        outs = []
        for var, inner, s in cases:
            if name == 'ok':
                outs.append(Out('val', ('ctor', 'Some', (inner,)) if var == 'Ok' else ('ctor', 'None', ()), s))
            elif name == 'err':
                outs.append(Out('val', ('ctor', 'Some', (inner,)) if var == 'Err' else ('ctor', 'None', ()), s))
            elif var == 'Ok':
                outs.append(Out('val', ('ctor', 'Ok', (inner,)), s))
            else:
                for o in I.apply(args[1], [inner], node, s):
                    outs.append(Out('val', ('ctor', 'Err', (o.val,)), o.st) if o.kind == 'val' else o)
        return outs
    if I.exact_seqs:
        r = known_seq_summary(I, cal, name, args, node, st)
        if r is not None:
            return r
    if ('iterator::Iterator::' in cal or 'core::iter::traits::iterator::Iterator>::' in cal) and args and name in ('skip_while', 'take_while', 'filter', 'skip', 'take', 'count', 'any', 'all', 'position', 'find', 'rev', 'rposition', 'last'):
        # iterator adaptors over the octets of a literal byte string (std's definitions applied to the known elements):
        #   skip_while(p)  everything from the first element p rejects;   take_while(p)  everything before it;   filter(p)  the elements
        #   p accepts;   skip(n) / take(n)  without / only the first n;   count()  the number of elements.
        # The result of an adaptor is again a literal byte string (an iterator over it).  Nothing is modelled when the predicate
        # does not decide on some element.
        src = args[0]
        while src[0] == 'call' and src[1].rsplit('::', 1)[-1] in ('into_iter', 'iter', 'copied', 'cloned') and len(src[2]) == 1:
            src = src[2][0]
        if src[0] == 'lit' and isinstance(src[1], bytes) and len(src[1]) <= 256:
            octs = src[1]
            if name == 'count' and len(args) == 1:
                return [Out('val', ('lit', len(octs)), st)]
            if name == 'rev' and len(args) == 1:
                # rev(): the same elements, last first (an iterator over a slice / array is double-ended and yields every element once)
                return [Out('val', ('lit', octs[::-1]), st)]
            if name == 'last' and len(args) == 1:
                # last(): the final element the iterator yields, None for an empty one
                return [Out('val', ('ctor', 'Some', (('lit', octs[-1]),)) if octs else ('ctor', 'None', ()), st)]
            if name == 'rposition' and len(args) == 2 and args[1][0] in ('closure', 'fn'):
                # rposition(p): std applies p from the back and answers Some(i), i the index counted from the FRONT, for the last
                # element p accepts, None when there is none; no model when the predicate does not decide on an element
                s, okm, hit = st, True, None
                for i_ in range(len(octs) - 1, -1, -1):
                    outs_ = [o for o in I.apply(args[1], [('lit', octs[i_])], node, s)]
                    if len(outs_) != 1 or outs_[0].kind != 'val':
                        okm = False; break
                    ds = I.decide(outs_[0].val, outs_[0].st)
                    if len(ds) != 1:
                        okm = False; break
                    s = ds[0][1]
                    if ds[0][0]:
                        hit = i_; break
                if okm:
                    return [Out('val', ('ctor', 'Some', (('lit', hit),)) if hit is not None else ('ctor', 'None', ()), s)]
            if name in ('skip', 'take') and len(args) == 2 and args[1][0] == 'lit' and isinstance(args[1][1], int) and not isinstance(args[1][1], bool) and args[1][1] >= 0:
                return [Out('val', ('lit', octs[args[1][1]:] if name == 'skip' else octs[:args[1][1]]), st)]
            if name in ('any', 'all', 'position', 'find') and len(args) == 2 and args[1][0] in ('closure', 'fn'):
                # a search over the known octets: the predicate is applied in order until it decides (any / position / find stop at
                # the first yes, all at the first no); no model when the predicate does not decide on an element
                s, okm, hit = st, True, None
                for i_, x in enumerate(octs):
                    outs_ = [o for o in I.apply(args[1], [('lit', x)], node, s)]
                    if len(outs_) != 1 or outs_[0].kind != 'val':
                        okm = False; break
                    ds = I.decide(outs_[0].val, outs_[0].st)
                    if len(ds) != 1:
                        okm = False; break
                    s = ds[0][1]
                    if ds[0][0] == (name != 'all'):
                        hit = (i_, x); break
                if okm:
                    if hit is None:
                        r_ = {'any': FALSE, 'all': TRUE, 'position': ('ctor', 'None', ()), 'find': ('ctor', 'None', ())}[name]
                    else:
                        r_ = {'any': TRUE, 'all': FALSE, 'position': ('ctor', 'Some', (('lit', hit[0]),)), 'find': ('ctor', 'Some', (('lit', hit[1]),))}[name]
                    return [Out('val', r_, s)]
            if name in ('skip_while', 'take_while', 'filter') and len(args) == 2 and args[1][0] in ('closure', 'fn'):
                verdicts, s, okm = [], st, True
                for x in octs:
                    if name != 'filter' and verdicts and not verdicts[-1]:
                        break           # (the predicate of skip_while / take_while is not called again once it has said no)
                    outs_ = [o for o in I.apply(args[1], [('lit', x)], node, s)]
                    if len(outs_) != 1 or outs_[0].kind != 'val':
                        okm = False; break
                    ds = I.decide(outs_[0].val, outs_[0].st)
                    if len(ds) != 1:
                        okm = False; break
                    verdicts.append(ds[0][0]); s = ds[0][1]
                if okm:
                    if name == 'filter':
                        res_ = bytes(x for x, v in zip(octs, verdicts) if v)
                    else:
                        k = verdicts.index(False) if False in verdicts else len(octs)
                        res_ = octs[k:] if name == 'skip_while' else octs[:k]
                    return [Out('val', ('lit', res_), s)]
    if name == 'from_str_radix' and len(args) == 2 and args[0][0] == 'lit' and isinstance(args[0][1], str) and args[1][0] == 'lit' \
            and isinstance(args[1][1], int) and not isinstance(args[1][1], bool) and 2 <= args[1][1] <= 36:
        # <int>::from_str_radix(known str, known radix): see parse_int_radix; Ok(n) when the target type holds n, Err otherwise
        m_ = re.match(r'core::num::<impl ([iu])(8|16|32|64|128|size)>::from_str_radix$', cal)
        if m_:
            bits = 64 if m_.group(2) == 'size' else int(m_.group(2))
            lo_, hi_ = (-(1 << (bits - 1)), (1 << (bits - 1)) - 1) if m_.group(1) == 'i' else (0, (1 << bits) - 1)
            n_ = parse_int_radix(args[0][1], args[1][1], m_.group(1) == 'i')
            if n_ is not None and lo_ <= n_ <= hi_:
                return [Out('val', ('ctor', 'Ok', (('lit', n_),)), st)]
            return [Out('val', ('ctor', 'Err', (('unk', 'ParseIntError'),)), st)]
    if cal in ('core::str::converts::from_utf8', 'core::str::<impl str>::from_utf8') and len(args) == 1 and args[0][0] == 'lit' and isinstance(args[0][1], bytes):
        # str::from_utf8(known octets): Ok(the str) exactly when the octets are well-formed UTF-8 (no overlong forms, no surrogates,
        # nothing above U+10FFFF - the same definition Python's strict decoder implements), Err otherwise
        try:
            return [Out('val', ('ctor', 'Ok', (('lit', args[0][1].decode('utf-8')),)), st)]
        except UnicodeDecodeError:
            return [Out('val', ('ctor', 'Err', (('unk', 'Utf8Error'),)), st)]
    if cal == 'alloc::string::String::from_utf8' and len(args) == 1 and args[0][0] == 'lit' and isinstance(args[0][1], bytes):
        # String::from_utf8(known octets): Ok(the String those octets spell) exactly when they are well-formed UTF-8 (the same test as
        # str::from_utf8 above), otherwise Err(FromUtf8Error) - an error that owns the very octets it was given (into_bytes / as_bytes
        # hand them back unchanged): in the term domain, where those two are transparent, the error is represented by its octets
        try:
            return [Out('val', ('ctor', 'Ok', (('lit', args[0][1].decode('utf-8')),)), st)]
        except UnicodeDecodeError:
            return [Out('val', ('ctor', 'Err', (args[0],)), st)]
    if cal == 'alloc::string::String::from_utf8_lossy' and len(args) == 1 and args[0][0] == 'lit' and isinstance(args[0][1], bytes):
        # String::from_utf8_lossy(known octets): Cow::Borrowed(the str) exactly when the octets are well-formed UTF-8 (std: "if our byte
        # slice is invalid UTF-8 then we need to insert the replacement characters, which will change the size of the string, and hence,
        # require a String; but if it's already valid UTF-8, we don't need a new allocation"), otherwise Cow::Owned of a text with
        # U+FFFD in it, which is not computed here
        try:
            return [Out('val', ('ctor', 'Cow::Borrowed', (('lit', args[0][1].decode('utf-8')),)), st)]
        except UnicodeDecodeError:
            return [Out('val', ('ctor', 'Cow::Owned', (('unk', 'lossy text'),)), st)]
    if cal == 'core::slice::<impl [T]>::split' and len(args) == 2 and args[0][0] == 'lit' and isinstance(args[0][1], bytes) and args[1][0] in ('closure', 'fn') and len(args[0][1]) <= 512:
        # slice.split(pred) on known octets: the sub-slices between the elements pred accepts, in order, those elements left out - n
        # separators give n + 1 pieces, empty ones included (an empty slice gives one empty piece).  The predicate is applied to
        # every element in order; no model when it does not decide on one.
        pieces, cur, s, okm = [], [], st, True
        for x in args[0][1]:
            outs_ = [o for o in I.apply(args[1], [('lit', x)], node, s)]
            if len(outs_) != 1 or outs_[0].kind != 'val':
                okm = False; break
            ds = I.decide(outs_[0].val, outs_[0].st)
            if len(ds) != 1:
                okm = False; break
            s = ds[0][1]
            if ds[0][0]:
                pieces.append(bytes(cur)); cur = []
            else:
                cur.append(x)
        if okm:
            pieces.append(bytes(cur))
            return [Out('val', ('vec', tuple(('lit', p_) for p_ in pieces)), s)]
    if cal == 'core::str::<impl str>::split' and len(args) == 2 and all(a[0] == 'lit' and isinstance(a[1], str) for a in args) and args[1][1]:
        # str.split(pat) with a known character / non-empty string pattern on a known str: the sub-strings between the
        # non-overlapping matches found left to right, empty ones included (what Python's str.split(sep) computes for a non-empty sep)
        return [Out('val', ('vec', tuple(('lit', p_) for p_ in args[0][1].split(args[1][1]))), st)]
    if cal in ('core::char::methods::<impl char>::to_digit', 'core::char::methods::<impl char>::is_digit') and len(args) == 2 \
            and ordinal(args[0]) is not None and ordinal(args[0])[0] == 'char' and args[1][0] == 'lit' and isinstance(args[1][1], int) and 2 <= args[1][1] <= 36:
        # char::to_digit(radix) / is_digit(radix) of a known character: see char_digit
        d_ = char_digit(ordinal(args[0])[1], args[1][1])
        if name == 'is_digit':
            return [Out('val', ('lit', d_ is not None), st)]
        return [Out('val', ('ctor', 'Some', (('lit', d_),)) if d_ is not None else ('ctor', 'None', ()), st)]
    if name == 'try_from' and len(args) == 1 and args[0][0] == 'lit' and isinstance(args[0][1], int) and not isinstance(args[0][1], bool):
        # checked integer conversion of a known number: Ok(n) when the target type holds it, Err otherwise
        # (std spreads these impls over several modules - core::convert::num, ..::ptr_try_from_impls -: the impl header names the types)
        m_ = re.match(r'<(\w+) as core::convert::TryFrom<(\w+)>>::try_from', cal) or re.match(r'core::convert::num::(?:\w+::)*<impl core::convert::TryFrom<(\w+)> for (\w+)>::try_from', cal)
        if m_:
            tgt = m_.group(1) if cal.startswith('<') else m_.group(2)
            rng = INT_RANGE.get(tgt)
            if rng is not None:
                fits = rng[0] <= args[0][1] <= rng[1]
                return [Out('val', ('ctor', 'Ok', (args[0],)) if fits else ('ctor', 'Err', (('unk', 'TryFromIntError'),)), st)]
    if name == 'contains' and len(args) == 2 and RANGE_CONTAINS.match(cal):
        # range.contains(&x), std (RangeBounds::contains, to which every inherent `contains` of the range types delegates):
        #   (match start_bound { Included(s) => s <= x, Unbounded => true }) && (match end_bound { Included(e) => x <= e,
        #   Excluded(e) => x < e, Unbounded => true }),
        # with the bounds `a..b` [a, b), `a..=b` [a, b], `a..` [a, inf), `..b` (-inf, b), `..=b` (-inf, b], `..` everything.
        # Exact for all values: on literals it is computed; for a symbolic x (or bound) it is the conjunction of those comparisons.
        rv = range_value(args[0])
        m_ = RANGE_CONTAINS.match(cal)
        if rv is not None and m_.group(1) in (None, rv[0]) and range_as_built(I, node, args[0], st):
            kind, lo, hi = rv
            x = args[1]
            def cmp_(op, a, b):
                oa, ob = ordinal(a), ordinal(b)
                if oa is not None and ob is not None and oa[0] == ob[0]:
                    return ('lit', {'Le': oa[1] <= ob[1], 'Lt': oa[1] < ob[1]}[op])
                if a[0] == 'lit' and b[0] == 'lit':
                    return None            # literals of kinds that are not compared here (floats, strings)
                t = ('bin', op, a, b)
                kn = st.known(t)
                return ('lit', kn) if kn is not None else t
            parts = []
            if lo is not None:
                parts.append(cmp_('Le', lo, x))
            if hi is not None:
                parts.append(cmp_('Le' if kind in ('RangeInclusive', 'RangeToInclusive') else 'Lt', x, hi))
            if all(p is not None for p in parts):
                r = TRUE
                for p in parts:
                    r = bin_term('And', r, p)
                return [Out('val', r, st)]
    if name in ASCII_CLASSES and len(args) == 1 and (cal == 'core::num::<impl u8>::' + name or cal == 'core::char::methods::<impl char>::' + name):
        # u8::is_ascii_* / char::is_ascii_* of a known octet / character: the class tables of the std documentation (a character
        # outside ASCII is in none of them)
        o = ordinal(args[0])
        if o is not None and o[0] == ('int' if 'impl u8' in cal else 'char'):
            return [Out('val', ('lit', o[1] in ASCII_CLASSES[name]), st)]
    if name == 'contains' and len(args) == 2 and cal == 'core::slice::<impl [T]>::contains' and ordinal(args[1]) is not None:
        # slice.contains(&x) = some element equals x; decided when x and every element are known integers / characters of one kind
        xs = [('lit', b) for b in args[0][1]] if args[0][0] == 'lit' and isinstance(args[0][1], bytes) else \
            list(args[0][1]) if args[0][0] in ('array', 'vec') else None
        if xs is not None and all(ordinal(e) is not None and ordinal(e)[0] == ordinal(args[1])[0] for e in xs):
            return [Out('val', ('lit', any(ordinal(e) == ordinal(args[1]) for e in xs)), st)]
    if name in ('starts_with', 'ends_with') and cal.startswith('core::slice::<impl [T]>::') and len(args) == 2 and seq_elems(args[0]) is not None and seq_elems(args[1]) is not None:
        # slice.starts_with(needle) / ends_with(needle) with every element of both known integers: needle.len() <= len and the first /
        # last needle.len() elements equal the needle's, element by element (true for the empty needle)
        hay, ndl = seq_elems(args[0])[0], seq_elems(args[1])[0]
        if all(x[0] == 'lit' and isinstance(x[1], int) and not isinstance(x[1], bool) for x in hay + ndl):
            part = hay[:len(ndl)] if name == 'starts_with' else hay[len(hay) - len(ndl):] if len(ndl) <= len(hay) else None
            return [Out('val', ('lit', len(ndl) <= len(hay) and part == ndl), st)]
    if cal == 'core::mem::size_of' and not args:
        # size_of::<T>() of a fixed-width integer type is its width in octets (usize / isize: 8 on the 64-bit target the facts are
        # extracted for - the same assumption as INT_RANGE); any other type stays an opaque call
        m_ = re.match(r'\[([iu](?:8|16|32|64|128|size))\]$', node.get('targs') or '')          # (the call's generic arguments as the compiler resolved them)
        if m_:
            return [Out('val', ('lit', {'8': 1, '16': 2, '32': 4, '64': 8, '128': 16, 'size': 8}[m_.group(1)[1:]]), st)]
    if name in ('is_empty', 'len') and args and args[0][0] == 'lit' and isinstance(args[0][1], (bytes, str)):
        n_ = len(args[0][1].encode('utf-8') if isinstance(args[0][1], str) else args[0][1])       # (str::len counts octets)
        return [Out('val', ('lit', n_ == 0 if name == 'is_empty' else n_), st)]
    if name == 'input_len' and 'nom::traits::InputLength' in cal and len(args) == 1 and args[0][0] == 'lit' and isinstance(args[0][1], (bytes, str)):
        # nom's InputLength for &[u8] / &str is `self.len()`: the number of octets
        return [Out('val', ('lit', len(args[0][1].encode('utf-8') if isinstance(args[0][1], str) else args[0][1])), st)]
    if name in ('is_empty', 'len') and args and args[0][0] == 'vec' and (cal.startswith('alloc::vec::Vec') or (I.places and cal.startswith('alloc::collections::vec_deque::VecDeque::<T, A>::'))):
        return [Out('val', ('lit', len(args[0][1]) == 0 if name == 'is_empty' else len(args[0][1])), st)]
    if name == 'is_empty' and args and args[0][0] == 'vecpush' and cal.startswith('alloc::vec::Vec'):
        return [Out('val', FALSE, st)]          # a vector something was pushed to is not empty, whatever it held before
    if name in ('box_assume_init_into_vec_unsafe', 'into_vec'):
        arr = leaves(('x',) + tuple(args), lambda x: x[0] == 'array')
        if arr:
            return [Out('val', ('vec', arr[0][1]), st)]
    if cal.endswith('alloc::vec::Vec::<T>::new') or cal.endswith('alloc::vec::Vec::<T>::with_capacity'):
        return [Out('val', ('vec', ()), st)]
    if name == 'get' and cal.startswith('core::slice::<impl [T]>::') and len(args) == 2 and args[0][0] == 'array' \
            and args[1][0] == 'lit' and isinstance(args[1][1], int) and not isinstance(args[1][1], bool):
        # slice.get(k) on a sequence whose elements are known: Some(element k) when k is in range, None otherwise
        return [Out('val', ('ctor', 'Some', (args[0][1][args[1][1]],)) if 0 <= args[1][1] < len(args[0][1]) else ('ctor', 'None', ()), st)]
    if name in ('first', 'last', 'get') and cal.startswith('core::slice::<impl [T]>::') and args and args[0][0] == 'lit' and isinstance(args[0][1], bytes) \
            and (name != 'get' or (len(args) == 2 and args[1][0] == 'lit' and isinstance(args[1][1], int) and not isinstance(args[1][1], bool))):
        # first() / last() / get(k) of a byte string whose octets are known: Some(that octet) when there is one, None otherwise
        bs = args[0][1]
        k = 0 if name == 'first' else len(bs) - 1 if name == 'last' else args[1][1]
        return [Out('val', ('ctor', 'Some', (('lit', bs[k]),)) if 0 <= k < len(bs) else ('ctor', 'None', ()), st)]
    if cal.startswith('core::slice::<impl [T]>::') and name in ('split_at', 'split_at_checked', 'split_first', 'split_last') and args and seq_elems(args[0]) is not None \
            and (name in ('split_first', 'split_last') or (len(args) == 2 and args[1][0] == 'lit' and isinstance(args[1][1], int) and not isinstance(args[1][1], bool))):
        # a slice whose elements are all listed, cut in two: split_at(k) = (s[..k], s[k..]) and panics for k > len (split_at_checked:
        # None there); split_first() = Some((s[0], s[1..])), split_last() = Some((s[len-1], s[..len-1])), None for the empty slice
        es, mk = seq_elems(args[0])
        if name in ('split_at', 'split_at_checked'):
            k = args[1][1]
            if 0 <= k <= len(es):
                pair = ('tuple', (mk(es[:k]), mk(es[k:])))
                return [Out('val', pair if name == 'split_at' else ('ctor', 'Some', (pair,)), st)]
            return [Out('div', UNIT, st.event(('panic', cal, tuple(args), node)))] if name == 'split_at' else [Out('val', ('ctor', 'None', ()), st)]
        if not es:
            return [Out('val', ('ctor', 'None', ()), st)]
        return [Out('val', ('ctor', 'Some', (('tuple', (es[0], mk(es[1:])) if name == 'split_first' else (es[-1], mk(es[:-1]))),)), st)]
    if name == 'get' and cal.startswith('core::slice::<impl [T]>::') and len(args) == 2 and seq_elems(args[0]) is not None and args[1][0] == 'struct' \
            and args[1][1].rsplit('::', 1)[-1] in ('RangeFrom', 'RangeTo', 'Range', 'RangeFull') and all(v[0] == 'lit' and isinstance(v[1], int) for _n, v in args[1][2]):
        # slice.get(a..b) on a slice whose elements are all listed: Some(s[a..b]) when a <= b <= len, None otherwise
        es, mk = seq_elems(args[0])
        fl = dict(args[1][2])
        lo = fl['start'][1] if 'start' in fl else 0
        hi = fl['end'][1] if 'end' in fl else len(es)
        return [Out('val', ('ctor', 'Some', (mk(es[lo:hi]),)) if 0 <= lo <= hi <= len(es) else ('ctor', 'None', ()), st)]
    if name in ('is_empty', 'len') and args and args[0][0] == 'array':
        return [Out('val', ('lit', len(args[0][1]) == 0 if name == 'is_empty' else len(args[0][1])), st)]
    if name in ('min', 'max') and len(args) == 2 and all(a[0] == 'lit' and isinstance(a[1], int) and not isinstance(a[1], bool) for a in args) \
            and ('core::cmp::Ord' in cal or cal.startswith('core::num::<impl ') or cal.startswith('core::cmp::')):
        return [Out('val', ('lit', min(args[0][1], args[1][1]) if name == 'min' else max(args[0][1], args[1][1])), st)]
    if name in ('from_be_bytes', 'from_le_bytes') and cal.startswith('core::num::<impl ') and len(args) == 1:
        bs = args[0][1] if args[0][0] == 'lit' and isinstance(args[0][1], bytes) else \
            bytes(x[1] & 0xff for x in args[0][1]) if args[0][0] == 'array' and all(x[0] == 'lit' and isinstance(x[1], int) for x in args[0][1]) else None
        ity = cal[len('core::num::<impl '):].split('>')[0]
        if bs is not None and INT_RANGE.get(ity) is not None:
            return [Out('val', ('lit', int.from_bytes(bs, 'big' if name == 'from_be_bytes' else 'little', signed=ity[0] == 'i')), st)]
    if name in ('to_be_bytes', 'to_le_bytes') and cal.startswith('core::num::<impl ') and len(args) == 1 and args[0][0] == 'lit' and isinstance(args[0][1], int):
        ity = cal[len('core::num::<impl '):].split('>')[0]
        rng = INT_RANGE.get(ity)
        if rng is not None:
            width = {'8': 1, '16': 2, '32': 4, '64': 8, 'size': 8}[ity[1:]]
            try:
                bs = args[0][1].to_bytes(width, 'big' if name == 'to_be_bytes' else 'little', signed=ity[0] == 'i')
                return [Out('val', ('lit', bs), st)]
            except OverflowError:
                pass
    if name == 'skip' and ('iterator::Iterator::' in cal or 'Iterator>::' in cal) and len(args) == 2 and args[0][0] == 'lit' and isinstance(args[0][1], bytes) \
            and args[1][0] == 'lit' and isinstance(args[1][1], int):
        return [Out('val', ('lit', args[0][1][args[1][1]:]), st)]
    if name in ('leading_zeros', 'trailing_zeros', 'count_ones', 'leading_ones', 'trailing_ones', 'count_zeros') and cal.startswith('core::num::<impl ') and len(args) == 1 \
            and args[0][0] == 'lit' and isinstance(args[0][1], int) and not isinstance(args[0][1], bool):
        # bit counts of the two's-complement representation of a known number in the width of its type (x: that representation read as
        # an unsigned number); the *_ones / count_zeros functions are the *_zeros / count_ones functions of the complement
        ity = cal[len('core::num::<impl '):].split('>')[0]
        bits = {'8': 8, '16': 16, '32': 32, '64': 64, 'size': 64}.get(ity[1:])
        if bits:
            x = args[0][1] & ((1 << bits) - 1)
            if name in ('leading_ones', 'trailing_ones', 'count_zeros'):
                x = ~x & ((1 << bits) - 1)
            base = {'leading_ones': 'leading_zeros', 'trailing_ones': 'trailing_zeros', 'count_zeros': 'count_ones'}.get(name, name)
            r = {'leading_zeros': bits - x.bit_length(), 'trailing_zeros': (bits if x == 0 else (x & -x).bit_length() - 1), 'count_ones': bin(x).count('1')}[base]
            return [Out('val', ('lit', r), st)]
    if name in ('checked_shr', 'checked_shl') and cal.startswith('core::num::<impl ') and len(args) == 2 \
            and all(a[0] == 'lit' and isinstance(a[1], int) and not isinstance(a[1], bool) for a in args):
        # checked_shr(x, n) / checked_shl(x, n): None when n is at least the width of x's type, else Some(x >> n) / Some(x << n) - the
        # shift of the type: arithmetic for signed x, and bits shifted out at the top are dropped (the result wraps into the type)
        ity = cal[len('core::num::<impl '):].split('>')[0]
        bits = {'8': 8, '16': 16, '32': 32, '64': 64, 'size': 64}.get(ity[1:])
        rng = INT_RANGE.get(ity)
        if bits and rng is not None and args[1][1] >= 0:
            if args[1][1] >= bits:
                return [Out('val', ('ctor', 'None', ()), st)]
            r = args[0][1] >> args[1][1] if name == 'checked_shr' else (((args[0][1] << args[1][1]) - rng[0]) % (1 << bits)) + rng[0]
            return [Out('val', ('ctor', 'Some', (('lit', r),)), st)]
    if name in ('ilog2', 'checked_ilog2') and cal.startswith('core::num::<impl ') and len(args) == 1 and args[0][0] == 'lit' and isinstance(args[0][1], int) and not isinstance(args[0][1], bool):
        # ilog2(x) = floor(log2 x) = bit length of x minus one for every x > 0; for x <= 0 ilog2 panics (in every build profile) and
        # checked_ilog2 answers None
        r = int_log2(args[0][1])
        if name == 'checked_ilog2':
            return [Out('val', ('ctor', 'Some', (('lit', r),)) if r is not None else ('ctor', 'None', ()), st)]
        if r is None:
            return [Out('div', UNIT, st.event(('panic', cal, tuple(args), node)))]
        return [Out('val', ('lit', r), st)]
    if name in ('is_negative', 'is_positive') and cal.startswith('core::num::<impl i') and len(args) == 1:
        x = args[0]
        return [Out('val', bin_term('Lt', x, ('lit', 0)) if name == 'is_negative' else bin_term('Gt', x, ('lit', 0)), st)]
    if cal == 'alloc::string::String::new' and not args:
        return [Out('val', ('lit', ''), st)]
    if cal.endswith('alloc::boxed::Box::<T>::new') and args:
        return [Out('val', args[0], st)]
    if cal == 'core::iter::traits::iterator::Iterator::zip' and len(args) == 2:
        # zip of an array expression with a literal counter (`0u64..`), a literal range or another array expression: the pairs are known
        z = zip_finite(I, args[0], args[1])
        if z is not None:
            return [Out('val', ('array', tuple(z)), st)]
    if cal == 'core::iter::traits::iterator::Iterator::enumerate' and len(args) == 1 and finite_seq(args[0], I.exact_seqs, I.listed_seqs) is not None:
        return [Out('val', ('array', tuple(('tuple', (('lit', i), x)) for i, x in enumerate(finite_seq(args[0], I.exact_seqs, I.listed_seqs)))), st)]
    if cal == 'core::iter::traits::iterator::Iterator::flatten' and len(args) == 1 and finite_seq(args[0], I.exact_seqs, I.listed_seqs) is not None:
        # flatten() yields, for each item of the outer iterator in order, the items of `item.into_iter()` in order.  For an item that
        # is a known Option that is its payload (Some) or nothing (None) - Option<T>::into_iter yields the payload at most once -, for
        # a known Result its Ok payload or nothing (Result<T, E>::into_iter), for a sequence known by position its elements.  An
        # item of which none of this is known leaves the call unmodelled (opaque: whoever reads the result fails closed).
        acc = []
        for x in finite_seq(args[0], I.exact_seqs, I.listed_seqs):
            if x[0] == 'ctor' and x[1] in ('Some', 'Ok') and len(x[2]) == 1:
                acc.append(x[2][0])
            elif x[0] == 'ctor' and x[1] in ('None', 'Err'):
                pass
            elif finite_seq(x, I.exact_seqs, I.listed_seqs) is not None:
                acc.extend(finite_seq(x, I.exact_seqs, I.listed_seqs))
            else:
                acc = None; break
        if acc is not None and len(acc) <= 16:
            return [Out('val', ('array', tuple(acc)), st)]
    if I.listed_seqs and cal == 'core::iter::traits::iterator::Iterator::chain' and len(args) == 2 \
            and finite_seq(args[0], I.exact_seqs, True) is not None and finite_seq(args[1], I.exact_seqs, True) is not None \
            and len(finite_seq(args[0], I.exact_seqs, True)) + len(finite_seq(args[1], I.exact_seqs, True)) <= 16:
        # a.chain(b): every item of a in order, then every item of b in order
        return [Out('val', ('array', tuple(finite_seq(args[0], I.exact_seqs, True) + finite_seq(args[1], I.exact_seqs, True))), st)]
    if I.listed_seqs and cal == 'core::iter::traits::iterator::Iterator::rev' and len(args) == 1 and finite_seq(args[0], I.exact_seqs, True) is not None:
        # rev() of a double-ended iterator over listed items yields the same items, last first
        return [Out('val', ('array', tuple(reversed(finite_seq(args[0], I.exact_seqs, True)))), st)]
    if cal in ('core::iter::traits::iterator::Iterator::map', 'core::iter::traits::iterator::Iterator::filter_map', 'core::iter::traits::iterator::Iterator::filter') \
            and len(args) == 2 and args[1][0] in ('closure', 'fn') and finite_seq(args[0], I.exact_seqs, I.listed_seqs) is not None:
        # an adaptor over an array expression is evaluated exactly, element by element in order (like a `for` over a literal
        # sequence): the result is the vector of what the closure yields / keeps, on each combination of its decisions
        states, abn = [((), st)], []
        for x in finite_seq(args[0], I.exact_seqs, I.listed_seqs):
            nxt = []
            for acc, s in states:
                for o in I.apply(args[1], [x], node, s):
                    if o.kind != 'val':
                        abn.append(o)
                    elif name == 'map':
                        nxt.append((acc + (o.val,), o.st))
                    elif name == 'filter':
                        for truth, s3 in I.decide(o.val, o.st):
                            nxt.append((acc + (x,) if truth else acc, s3))
                    elif o.val[0] == 'ctor' and o.val[1] in ('Some', 'None'):
                        nxt.append((acc + (o.val[2][0],) if o.val[1] == 'Some' else acc, o.st))
                    else:
                        kt = o.st.variant_test(o.val, 'Some', ['Some', 'None'])
                        if kt != 'no':
                            nxt.append((acc + (('variant', o.val, 'Some', 0),), o.st if kt == 'yes' else o.st.assume(('is', o.val, 'Some'), True)))
                        if kt != 'yes':
                            nxt.append((acc, o.st if kt == 'no' else o.st.assume(('is', o.val, 'Some'), False)))
            states = nxt
            I.guard(len(states))
        return [Out('val', ('vec', acc), s) for acc, s in states] + abn
    if cal == 'core::iter::traits::iterator::Iterator::map' and len(args) == 2 and args[1][0] in ('closure', 'fn'):
        src = args[0]
        el, st2 = st.fresh('elem')
        el = ('elem', src, el[2])
        outs = []
        for o in I.apply_generic(args[1], [el], node, st2):
            if o.kind == 'val':
                outs.append(Out('val', ('many', src, el, o.val), o.st))
            else:
                outs.append(o)
        return outs
    if cal == 'core::iter::traits::iterator::Iterator::filter_map' and len(args) == 2 and args[1][0] in ('closure', 'fn'):
        src = args[0]
        el, st2 = st.fresh('elem')
        el = ('elem', src, el[2])
        outs = []
        for o in I.apply_generic(args[1], [el], node, st2):
            if o.kind == 'val':
                v = o.val
                if v[0] == 'ctor' and v[1] == 'Some':
                    outs.append(Out('val', ('many', src, el, v[2][0]), o.st))
                elif v[0] == 'ctor' and v[1] == 'None':
                    outs.append(Out('val', ('many', src, el, ('skip',)), o.st))
                else:
                    outs.append(Out('val', ('many', src, el, ('variant', v, 'Some', 0)), o.st))
            else:
                outs.append(o)
        return outs
    if cal == 'core::iter::traits::iterator::Iterator::filter' and len(args) == 2 and args[1][0] in ('closure', 'fn'):
        src = args[0]
        el, st2 = st.fresh('elem')
        el = ('elem', src, el[2])
        outs = []
        for o in I.apply_generic(args[1], [el], node, st2):
            if o.kind == 'val':
                for truth, s3 in I.decide(o.val, o.st):
                    outs.append(Out('val', ('many', src, el, el if truth else ('skip',)), s3))
            else:
                outs.append(o)
        return outs
    if name == 'fold' and ('iterator::Iterator::' in cal or 'core::iter::traits::iterator::Iterator>::' in cal) \
            and len(args) == 3 and args[2][0] in ('closure', 'fn') and args[1][0] == 'lit' and I.literal_elems(args[0]) is not None:
        # a fold over a literal sequence from a literal seed is evaluated exactly, element by element
        states, abn = [(args[1], st)], []
        for x in I.literal_elems(args[0]):
            nxt = []
            for acc, s in states:
                for o in I.apply(args[2], [acc, x], node, s):
                    if o.kind == 'val':
                        nxt.append((o.val, o.st))
                    else:
                        abn.append(o)
            states = nxt
        return [Out('val', acc, s) for acc, s in states] + abn
    if I.combinators and name == 'fold' and ('iterator::Iterator::' in cal or 'core::iter::traits::iterator::Iterator>::' in cal) \
            and len(args) == 3 and args[1] == FALSE and args[2][0] in ('closure', 'fn'):
        # `fold(false, |acc, x| acc || p(x))` is `any(p)`: recognised when the step keeps `true` and, from `false`, yields p(x)
        src = args[0]
        el, st2 = st.fresh('elem')
        el = ('elem', src, el[2])
        keeps = [o for o in I.apply(args[2], [TRUE, el], node, st2) if o.kind == 'val']
        if keeps and all(o.val == TRUE for o in keeps):
            conds = []
            base = len(st2.pc)
            okf = True
            for o in I.apply(args[2], [FALSE, el], node, st2):
                if o.kind != 'val':
                    okf = False; continue
                for truth, s3 in I.decide(o.val, o.st):
                    if truth:
                        conds.append(tuple(s3.pc[base:]))
            if okf:
                atom = ('any', src, el, tuple(sorted(set(conds), key=str)))
                return [Out('val', ('lit', truth), s3) for truth, s3 in I.decide(atom, st2)]
    if I.combinators and name in ('any', 'position', 'all', 'find') and ('iterator::Iterator::' in cal or 'core::iter::traits::iterator::Iterator>::' in cal) \
            and len(args) == 2 and args[1][0] in ('closure', 'fn'):
        # a search over a sequence with a predicate: the predicate is evaluated once on a generic element; the atom records the
        # sequence and the condition(s) under which the predicate holds, so that a rule can read *what* is searched for
        src = args[0]
        el, st2 = st.fresh('elem')
        el = ('elem', src, el[2])
        conds = []
        base = len(st2.pc)
        for o in I.apply(args[1], [el], node, st2):
            if o.kind != 'val':
                continue
            for truth, s3 in I.decide(o.val, o.st):
                if truth:
                    conds.append(tuple(s3.pc[base:]) + (((('holds', o.val), True),) if o.val[0] not in ('lit',) and not s3.pc[base:] else ()))
        atom = (name if name != 'find' else 'position', src, el, tuple(sorted(set(conds), key=str)))
        outs = []
        for truth, s3 in I.decide(atom, st2):
            if name == 'any':
                outs.append(Out('val', ('lit', truth), s3))
            elif name == 'all':
                outs.append(Out('val', ('lit', truth), s3))
            elif name == 'position':
                outs.append(Out('val', ('ctor', 'Some', (('posidx', atom),)) if truth else ('ctor', 'None', ()), s3))
            else:
                outs.append(Out('val', ('ctor', 'Some', (('found', atom),)) if truth else ('ctor', 'None', ()), s3))
        return outs
    if name == 'retain' and len(args) == 2 and args[1][0] in ('closure', 'fn') and ('HashSet' in cal or 'HashMap' in cal or 'BTreeSet' in cal):
        # set.retain(pred) removes exactly the elements pred rejects.  The predicate is a function of the element through equality
        # comparisons - and, when the caller has established an interval that holds every member (member_range), through ordering
        # comparisons that this interval decides - only (checked: anything else leaves the call opaque, and so does a predicate
        # that does anything but compute its answer): it is evaluated once for an element equal to each term it compares the
        # element with, and once for an element different from all of them.  The call is recorded as the removals it amounts to -
        # `remove(x)` for every x that is rejected whatever the other comparisons yield - followed by `clear` if an element
        # different from all of them is not certainly kept; a retain that amounts to no removal at all is recorded as the event
        # ('kept-all', callee, (set,), node).  A predicate that compares the element with nothing is judged the same way when it
        # certainly keeps every element (`|_| true`, `|&id| id > 0` on members known to be >= 1); otherwise the call stays opaque.
        place = args[0]
        el, st2 = st.fresh('elem')
        rng = I.member_range(node) if getattr(I, 'member_range', None) is not None else None
        bounded = (lambda x, s: s.assume(('range', x, rng[0], rng[1]), True)) if rng is not None else (lambda x, s: s)
        st2 = bounded(el, st2)
        probe = I.apply(args[1], [el], node, st2)
        cands = []
        opaque = False
        for o in probe:
            if o.kind != 'val' or len(o.st.ev) != len(st2.ev) or o.st.heap != st2.heap:
                opaque = True; continue
            for a, t in o.st.pc[len(st2.pc):]:
                if a[0] == 'bin' and a[1] == 'Eq' and el in (a[2], a[3]):
                    x = a[3] if a[2] == el else a[2]
                    if x not in cands:
                        cands.append(x)
                elif leaves(a, lambda z: z == el):
                    opaque = True
            if o.val[0] != 'lit':
                for z in leaves(o.val, lambda z: z[0] == 'bin' and z[1] == 'Eq' and el in (z[2], z[3])):
                    x = z[3] if z[2] == el else z[2]
                    if x not in cands:
                        cands.append(x)
        # a term no member can be equal to (a literal outside the members' interval) is not a candidate: nothing equal to it is there
        cands = [x for x in cands if st2.known(('bin', 'Eq', el, x)) is not False]
        if not opaque:
            def verdicts(x):
                # the element equal to x is a member too: the members' interval holds for x on this evaluation
                vs = set()
                for o in I.apply(args[1], [x], node, bounded(x, st)):
                    if o.kind != 'val':
                        return {None}
                    for truth, s3 in I.decide(o.val, o.st):
                        vs.add(truth)
                return vs
            removed = [x for x in cands if verdicts(x) == {False}]
            # an element different from every candidate: all the comparisons are false
            others = set()
            for o in probe:
                if o.kind == 'val' and all((not t) for a, t in o.st.pc[len(st2.pc):] if a[0] == 'bin' and a[1] == 'Eq' and el in (a[2], a[3])):
                    for truth, s3 in I.decide(o.val, o.st):
                        if all((not t) for a, t in s3.pc[len(st2.pc):] if a[0] == 'bin' and a[1] == 'Eq' and el in (a[2], a[3])):
                            others.add(truth)
            if cands or others == {True}:
                s2 = st
                base = cal.rsplit('::', 1)[0]
                for x in removed:
                    s2 = s2.event(('call', base + '::remove', (place, x), node))
                if others != {True}:
                    s2 = s2.event(('call', base + '::clear', (place,), node))
                elif not removed:
                    s2 = s2.event(('kept-all', cal, (place,), node))
                return [Out('val', UNIT, s2)]
    if I.places and cal == 'core::iter::traits::iterator::Iterator::rev' and len(args) == 1 and args[0][0] == 'vec':
        # rev() of an iterator that has the items x1 .. xn yet to yield (front to back) yields xn .. x1: with an iterator represented
        # by its remaining items in the order it yields them (see the next / next_back model in ev_MethodCall) that is the reversed list
        return [Out('val', ('vec', tuple(reversed(args[0][1]))), st)]
    if cal == 'core::iter::traits::iterator::Iterator::enumerate' and len(args) == 1:
        return [Out('val', ('enumerate', args[0]), st)]
    if cal == 'core::iter::traits::iterator::Iterator::collect' and args:
        return [Out('val', args[0], st)]
    if cal == 'core::iter::traits::iterator::Iterator::peekable' and len(args) == 1:
        return [Out('val', args[0], st)]          # the same cursor; peek / next_if below read it without / with consuming
    if cal.startswith('core::iter::adapters::peekable::Peekable::<I>::') and name in ('peek', 'peek_mut') and len(args) == 1:
        n = st.heap.get(('cursor', args[0]), 0)
        return [Out('val', ('nth', args[0], 'next', n), st)]
    if cal.startswith('core::iter::adapters::peekable::Peekable::<I>::') and name in ('next_if', 'next_if_eq') and len(args) == 2:
        # next_if(pred): the next element is consumed and returned exactly when there is one and pred holds for it
        base = args[0]
        key = ('cursor', base)
        n = st.heap.get(key, 0)
        t = ('nth', base, 'next', n)
        outs = []
        for some, s1 in I.decide(('is', t, 'Some'), st):
            if not some:
                outs.append(Out('val', ('ctor', 'None', ()), s1)); continue
            el = ('variant', t, 'Some', 0)
            tests = I.apply(args[1], [el], node, s1) if name == 'next_if' else [Out('val', bin_term('Eq', el, args[1]), s1)]
            for o in tests:
                if o.kind != 'val':
                    outs.append(o); continue
                for truth, s3 in I.decide(o.val, o.st):
                    if truth:
                        h = dict(s3.heap); h[key] = n + 1
                        outs.append(Out('val', t, St(s3.env, h, s3.ev, s3.pc, s3.ctr).event(('call', cal, tuple(args), node))))
                    else:
                        outs.append(Out('val', ('ctor', 'None', ()), s3))
        return outs
    if (cal.endswith('alloc::vec::Vec::<T, A>::pop') or cal.endswith(' as core::iter::traits::iterator::Iterator>::next')
            or cal == 'core::iter::traits::iterator::Iterator::next') and args:
        base = args[0]
        key = ('cursor', base)
        n = st.heap.get(key, 0)
        h = dict(st.heap); h[key] = n + 1
        s2 = St(st.env, h, st.ev, st.pc, st.ctr)
        t = ('nth', base, 'pop' if name == 'pop' else 'next', n)
        return [Out('val', t, s2.event(('call', cal, tuple(args), node)))]
    return None
