"""Positive controls: the queries behind rules whose expected count on inejge/ldap3 is zero (or that would pass vacuously if the
engine went blind) are run, on every check, against the fixture crate /verif/fixtures, where each construct MUST be found.
A control that does not match is an engine fault and fails the check closed (rule PC.*)."""
import os
import engine, facts as factsmod, hirq, cone
from facts import walk

_cache = {}

def fixture():
    if 'f' not in _cache:
        old = os.environ.pop('LDAP3_NO_INLINE', None)
        os.environ['LDAP3_NO_INLINE'] = '1'       # the helper-inlining policy is keyed on ldap3's baseline function list
        try:
            _cache['f'] = factsmod.Facts(engine.extract_fixture_facts())
        finally:
            if old is None:
                os.environ.pop('LDAP3_NO_INLINE', None)
            else:
                os.environ['LDAP3_NO_INLINE'] = old
    return _cache['f']

def leak_primitives(ctx, leakers_pred):
    f = fixture()
    got = {p.rsplit('::', 1)[-1] for p, n, c in hirq.all_calls(f, leakers_pred)}
    need = {'leak_forget', 'leak_manually_drop', 'leak_box'}
    ctx.add('PC.leak-primitives-are-seen', 'fixture', 'fixtures/src/lib.rs', need <= got,
            'positive control: the call query must find mem::forget / ManuallyDrop::new / Box::leak in the fixture crate (found in %s)' % sorted(got), nontrivial=False)

def panic_cone(ctx):
    """One source of each kind, through a closure and through a trait object, reached from `entry`; guarded arithmetic is
    discharged and unguarded arithmetic is not; the unbounded recursion is a cycle and the bounded one is accepted."""
    f = fixture()
    G = cone.Graph(f, os.path.join(engine.VERIF, 'fixtures'))
    parent = G.cone(['vfixture::entry'])
    srcs, ext = G.sources(parent)
    by = {}
    for s in srcs:
        by.setdefault(s.fn.split('::{')[0].rsplit('::', 1)[-1], []).append(s)
    want = {'src_diverging': 'diverging-call', 'unimpl': 'diverging-call', 'src_unwrap': 'may-panic-call', 'src_expect': 'may-panic-call',
            'src_index': 'assert', 'src_overflow': 'assert', 'src_div': 'assert', 'src_slice': 'may-panic-call', 'src_in_closure': 'assert',
            'area': 'assert'}
    missing = [k for k, kind in want.items() if not any(s.kind == kind and not s.discharged for s in by.get(k, []))]
    ctx.add('PC.panic-sources-are-seen', 'fixture', 'fixtures/src/lib.rs', not missing,
            'positive control: the cone from vfixture::entry must contain one undischarged panic source per kind (through a closure and a trait object too); not found in: %s' % missing, nontrivial=False)
    p3 = G.cone(['vfixture::div_by_literal'])
    s3, _ = G.sources(p3)
    ctx.add('PC.division-by-literal-is-not-a-source', 'fixture', 'fixtures/src/lib.rs', not [s for s in s3 if 'Zero' in s.callee],
            'positive control (negative side): `n / 8 + n % 3` must not be reported as a division-by-zero source', nontrivial=False)
    p2 = G.cone(['vfixture::guarded_sub', 'vfixture::unguarded_sub'])
    s2, _ = G.sources(p2)
    g = [s for s in s2 if s.fn.endswith('guarded_sub') and not s.fn.endswith('unguarded_sub')]
    u = [s for s in s2 if s.fn.endswith('unguarded_sub')]
    ctx.add('PC.guard-discharge-is-exact', 'fixture', 'fixtures/src/lib.rs', bool(g) and all(s.discharged for s in g) and bool(u) and not any(s.discharged for s in u),
            'positive control: `len - 128` after `if len < 128 { return }` must be discharged, the same subtraction without the guard must not', nontrivial=False)
    p4 = G.cone(['vfixture::bounded_add', 'vfixture::unbounded_add'])
    s4, _ = G.sources(p4)
    bd = [s for s in s4 if s.fn.endswith('::bounded_add') and s.callee == 'Overflow(Add)']
    ub = [s for s in s4 if s.fn.endswith('::unbounded_add') and s.callee == 'Overflow(Add)']
    ctx.add('PC.bounded-operands-discharge-is-exact', 'fixture', 'fixtures/src/lib.rs', len(bd) == 3 and all(s.discharged for s in bd) and len(ub) == 2 and not any(s.discharged for s in ub),
            'positive control: `2 + (x & 0x7f) as usize`, `2 + bytes.len()`, `x as usize + 300` (x: u8) must be discharged; `n + 2` (n: usize) and `units.len() + 2` (a slice of zero-sized elements) must not', nontrivial=False)
    cyc = G.sccs(set(parent.keys()))
    names = sorted(c[0].rsplit('::', 1)[-1] for c in cyc)
    ok = names == ['recurse_bounded', 'recurse_unbounded']
    if ok:
        from props import C11
        verdict = {c[0].rsplit('::', 1)[-1]: C11.any_depth_bounded(f, c)[0] for c in cyc}
        ok = verdict == {'recurse_bounded': True, 'recurse_unbounded': False}
    ctx.add('PC.recursion-is-seen', 'fixture', 'fixtures/src/lib.rs', ok,
            'positive control: both recursive cycles of the fixture must be found, the depth-limited one accepted and the other rejected (cycles: %s)' % names, nontrivial=False)

def who_may_touch(ctx):
    f = fixture()
    acc = hirq.field_accesses(f, lambda n: n.get('name') in ('counter', 'guarded'))
    owners = {p.rsplit('::', 1)[-1] for p, n, c in acc}
    ctx.add('PC.field-accesses-are-seen', 'fixture', 'fixtures/src/lib.rs', {'owner_write', 'intruder_write'} <= owners,
            'positive control: the who-may-touch query must find the accesses of both the owner and the intruder (found in %s)' % sorted(owners), nontrivial=False)
