"""Path-level (semantic) queries over the outcomes of the abstract interpreter.

Rules written against these helpers do not depend on how a function spells its control flow (`?` or an explicit match,
`if let` or `match`, early return or nesting, a helper function or inline code): they look at the enumerated paths of the
anchored body - for each path its condition (what was tested, with which outcome), its ordered call / store / await events
and the term it returns."""
import absx, hirq
from facts import walk, callee_of

def entry(B):
    """The expression to interpret for a body record: the block of an async fn's coroutine, else the body."""
    r = B.root
    if r.get('k') == 'Closure' and 'async fn body' in (r.get('ty') or ''):
        return r['body']
    return r

def paths(f, B, **kw):
    I = absx.Interp(f, B, **kw)
    outs = I.run(root=entry(B))
    return [o for o in outs if o.kind in ('val', 'ret', 'div', 'loop')], I

def strip_site(t):
    """Terms with call-site ids removed (two evaluations of the same pure expression compare equal)."""
    if isinstance(t, tuple):
        if t and t[0] == 'call' and len(t) == 4:
            return ('call', t[1], tuple(strip_site(x) for x in t[2]), None)
        return tuple(strip_site(x) for x in t)
    return t

def has(t, pred):
    return bool(absx.leaves(t, pred))

def calls(o, pred):
    """Call events (index, callee, args, node) of a path whose callee satisfies pred."""
    return [(i, e[1], e[2], e[3]) for i, e in enumerate(o.st.ev) if e[0] == 'call' and pred(e[1])]

def awaits(o):
    return [(i, e[1], e[2]) for i, e in enumerate(o.st.ev) if e[0] == 'await']

def stores(o, pred=None):
    return [(i, e[1], e[2], e[3]) for i, e in enumerate(o.st.ev) if e[0] == 'store' and (pred is None or pred(e[1]))]

def is_err_result(v):
    """The value a path returns is an error: Err(..) or the propagation of a failed `?`."""
    return (v[0] == 'ctor' and v[1] == 'Err') or v[0] == 'tryerr'

def is_ok_result(v):
    return v[0] == 'ctor' and v[1] == 'Ok'

def failed(o, term_pred):
    """The path condition says a value satisfying term_pred is a failure (not Ok / not Some)."""
    for a, t in o.st.pc:
        if a[0] == 'is' and a[2] in ('Ok', 'Some') and not t and term_pred(a[1]):
            return True
    return False

def succeeded(o, term_pred):
    for a, t in o.st.pc:
        if a[0] == 'is' and a[2] in ('Ok', 'Some') and t and term_pred(a[1]):
            return True
    return False

def tested(o, term_pred):
    return failed(o, term_pred) or succeeded(o, term_pred)

def recv_ty(node):
    if node.get('k') == 'MethodCall':
        return hirq.strip_refs(node['recv'].get('ty', ''))
    return ''

def taken_from(t, place_pred):
    """t is the value obtained by taking (Option::take / mem::take / mem::replace(.., None)) out of a place."""
    return t[0] == 'call' and t[1] == absx.Interp.TAKE and len(t[2]) == 1 and place_pred(t[2][0])

def payload_of(t, base_pred, variant='Some'):
    return t[0] == 'variant' and t[2] == variant and t[3] == 0 and base_pred(t[1])

def variant_truth(pc, term_pred, variant, siblings):
    """True / False / None: what the path condition says about `term is variant` for an enum with the given variants
    (a test against another variant, or the exclusion of all the others, decides it as well)."""
    others = [v for v in siblings if v != variant]
    excluded = set()
    for a, t in pc:
        if a[0] == 'is' and term_pred(a[1]):
            if a[2] == variant:
                return t
            if a[2] in others:
                if t:
                    return False
                excluded.add(a[2])
    if others and excluded >= set(others):
        return True
    return None

def reconstructs(v, base):
    """v is `base` itself, or `base` taken apart and put together again (`Err(e) => return Err(e)`, `Ok(Some(x)) => Ok(Some(x))`),
    or the propagation of base's error by `?`."""
    if v == base:
        return True
    if v[0] == 'tryerr' and v[1] == base:
        return True
    if v[0] == 'ctor' and len(v[2]) == 1:
        return reconstructs(v[2][0], ('variant', base, v[1], 0))
    if v[0] == 'ctor' and not v[2] and v[1] in ('None',):
        return True if base[0] == 'variant' else False
    return False

def search_atoms(pc, kind):
    """(truth, source, element, conditions) of the any / position / all atoms of a path condition"""
    return [(t, a[1], a[2], a[3]) for a, t in pc if a[0] == kind]

def untake(t):
    """Terms with `Option::take` / `mem::take` / `mem::replace(.., None)` read as the value they return: what the place held when it
    was taken.  (The interpreter keeps the call term so that a rule can ask *whether* a place was emptied; a rule that asks what the
    value is - is it Some, which variant is inside, where does it flow - looks through it.  The emptied place itself is in the heap.)"""
    if isinstance(t, tuple):
        if t and t[0] == 'call' and len(t) == 4 and t[1] == absx.Interp.TAKE and len(t[2]) == 1:
            return untake(t[2][0])
        return tuple(untake(x) for x in t)
    return t

def primitive_defaults(interp, cal, args, node, st):
    """Interpreter summary (pass in `summaries=[..]`): `Default::default()` of the primitive types is a constant - false, 0, the
    empty string, `None` for every Option - so the body of a derived `Default` impl evaluates to the field values it really yields."""
    import re
    if args or not cal.endswith(' as core::default::Default>::default'):
        return None
    ty = cal[1:-len(' as core::default::Default>::default')]
    if ty == 'bool':
        return [absx.Out('val', absx.FALSE, st)]
    if re.match(r'^[iu](8|16|32|64|128|size)$', ty):
        return [absx.Out('val', ('lit', 0), st)]
    if ty.startswith('core::option::Option<'):
        return [absx.Out('val', ('ctor', 'None', ()), st)]
    if ty in ('alloc::string::String', '&str'):
        return [absx.Out('val', ('lit', ''), st)]
    return None

def params_of_type(f, B, ty_pred):
    """Names of the parameters of body B whose declared type satisfies ty_pred (anchoring a parameter by its type, not its name)."""
    it = f.items.get(B.path) or {}
    ins = it.get('inputs') or []
    out = []
    for b, d in B.defs.items():
        if d['kind'] == 'param' and not d['proj'] and d['idx'] < len(ins) and ty_pred(hirq.strip_refs(ins[d['idx']] or '')) and d['name'] not in out:
            out.append(d['name'])
    return out

def finite_state_field(f, method_path):
    """(field name, [constructor term of each value]) of *the* state field of the struct whose method `method_path` is: its one field
    whose type is a fieldless enum of the workspace (anchored by type, not by name) - a finite domain a rule can evaluate a body over,
    value by value.  None if the method is not a method on a workspace struct with exactly one such field."""
    it = f.items.get(method_path) or {}
    owner = (it.get('impl_self') or '').split('<')[0]
    st_item = f.items.get(owner) or {}
    if st_item.get('kind') != 'Struct' or not it.get('inputs') or not hirq.strip_refs(it['inputs'][0]).startswith(owner):
        return None
    enums = {k: v for k, v in f.items.items() if v.get('kind') == 'Enum' and v.get('variants') and all(not x['fields'] for x in v['variants'])}
    fields = [(fl['name'], enums[fl['ty']]) for fl in st_item['variants'][0]['fields'] if fl['ty'] in enums]
    if len(fields) != 1:
        return None
    name, enum = fields[0]
    return name, [('ctor', hirq.short_def(v['path']), ()) for v in enum['variants']]

def leaves_result_in_fields(f, callee_path, **kw):
    """Interpreter summary (pass in `summaries=[..]`) for calls of the workspace method `callee_path`: what the callee does to the
    fields of its receiver, as far as the caller can use it.  By default a call the interpreter does not inline leaves the heap as
    it is - right for a callee that writes nothing the caller reads later, wrong for `fn next(&mut self) -> T { ..; self.mark = x; x }`
    followed by a read of `self.mark` in the caller.  The callee's paths are enumerated once (keywords `kw` as for `paths`); for
    every place `self.F..` (field links only) that some returning path stores to:
      * every returning path ends with the value it returns in that place  ->  after the call the place holds the call's result
        (the same term the call itself is answered with, so `let id = self.next(); ... self.mark` and `id` are one value);
      * otherwise  ->  the place holds a value of its own, ('left-by', callee, place, site), equal to nothing else.
    Justification: a returning call has taken exactly one returning path of the callee, and a place nobody stores to is unchanged;
    the receiver is `&mut`, so nothing else writes it while the call runs.  The call is recorded ('call' event) as without this
    summary; each write as the 'store' event the assignment `place = value` in the caller would leave."""
    B = hirq.Body(f, f.hir[callee_path])
    state = {}
    def effects():
        if 'fx' not in state:
            outs, _I = paths(f, B, **kw)
            rets = [o for o in outs if o.kind in ('val', 'ret')]
            SELF = ('param', 'self')
            def rooted(p):
                while isinstance(p, tuple) and p and p[0] == 'field':
                    p = p[1]
                return p == SELF
            places = []
            for o in rets:
                for _i, place, _v, _n in stores(o, lambda p: p[0] == 'field' and rooted(p)):
                    if place not in places:
                        places.append(place)
            state['fx'] = [(p, bool(rets) and all(o.st.heap.get(p) == o.val for o in rets)) for p in places]
        return state['fx']
    def subst(p, recv):
        return recv if p == ('param', 'self') else ('field', subst(p[1], recv), p[2])
    def summary(interp, cal, args, node, st):
        if cal != callee_path or not args or node.get('ty') == '!':
            return None
        t = ('call', cal, tuple(args), node.get('id'))
        s = st.event(('call', cal, tuple(args), node))
        for p, is_result in effects():
            place = subst(p, args[0])
            v = t if is_result else ('left-by', cal, place, node.get('id'))
            s = s.store(place, v).event(('store', place, v, node))
        return [absx.Out('val', t, s)]
    return summary
